//! A real Server / ServerState / AddressSpace / Session built through ServerBuilder, plus a generated
//! part of the address space that the three workloads of this group share.
#![allow(dead_code)]

use crate::common::Rng;
use opcua::server::prelude::*;
use opcua::server::session::{Session, SessionManager};
use opcua::server::state::ServerState;
use opcua::sync::RwLock;
use std::sync::Arc;

pub const ENDPOINT_URL: &str = "opc.tcp://localhost:4855/";

pub struct Env {
    pub server: Server,
    pub server_state: Arc<RwLock<ServerState>>,
    pub address_space: Arc<RwLock<AddressSpace>>,
    /// namespace index of the generated nodes
    pub ns: u16,
}

pub fn quiet_logging() {
    // the repository logs errors through `log`; no logger is installed, so nothing is printed
}

impl Env {
    pub fn new(can_modify: bool) -> Env {
        let pki = crate::pki::pki_dir().join("view_store");
        let mut b = ServerBuilder::new_anonymous("vh-view")
            .application_uri("urn:vh-view")
            .product_uri("urn:vh-view")
            .create_sample_keypair(false)
            .pki_dir(pki)
            .host_and_port("localhost", 4855)
            .discovery_urls(vec![ENDPOINT_URL.to_string()]);
        if can_modify {
            b = b.clients_can_modify_address_space();
        }
        let server = b.server().expect("valid server configuration");
        let server_state = server.server_state();
        let address_space = server.address_space();
        let ns = {
            let mut a = address_space.write();
            a.register_namespace("urn:vh:generated").expect("namespace")
        };
        Env {
            server,
            server_state,
            address_space,
            ns,
        }
    }

    /// A session as the session service would create it, without going through the wire
    pub fn new_session(&self, can_modify: bool) -> Arc<RwLock<Session>> {
        let mut s = Session::new(self.server_state.clone());
        opcua::verif::server::session_set_can_modify_address_space(&mut s, can_modify);
        s.set_activated(true);
        Arc::new(RwLock::new(s))
    }

    pub fn id(&self, name: &str) -> NodeId {
        NodeId::new(self.ns, name.to_string())
    }
}

/// A method handler that returns its input arguments
pub struct Echo;

impl opcua::server::callbacks::Method for Echo {
    fn call(
        &mut self,
        _session_id: &NodeId,
        _session_manager: Arc<RwLock<SessionManager>>,
        request: &CallMethodRequest,
    ) -> Result<CallMethodResult, StatusCode> {
        Ok(CallMethodResult {
            status_code: StatusCode::Good,
            input_argument_results: None,
            input_argument_diagnostic_infos: None,
            output_arguments: request.input_arguments.clone(),
        })
    }
}

pub fn rh() -> RequestHeader {
    RequestHeader::new(&NodeId::null(), &DateTime::now(), 1)
}

pub fn rh_token(token: &NodeId, handle: u32) -> RequestHeader {
    let mut h = RequestHeader::new(token, &DateTime::now(), handle);
    h.timeout_hint = 10_000;
    h
}

/// What the generated hub part of the address space looks like, for the C30 generators
pub struct Hubs {
    pub folder: NodeId,
    /// (hub node id, number of forward references given to it, number of inverse references)
    pub hubs: Vec<(NodeId, usize, usize)>,
    /// nodes that exist and can be used as edit targets
    pub spare: Vec<NodeId>,
}

const FWD_TYPES: &[ReferenceTypeId] = &[
    ReferenceTypeId::Organizes,
    ReferenceTypeId::HasComponent,
    ReferenceTypeId::HasProperty,
    ReferenceTypeId::HasOrderedComponent,
    ReferenceTypeId::HasEventSource,
    ReferenceTypeId::HasNotifier,
    ReferenceTypeId::GeneratesEvent,
    ReferenceTypeId::HasCondition,
    ReferenceTypeId::HasDescription,
];

/// Builds hubs with the given numbers of forward references (targets of mixed node classes and
/// reference types, some dangling) and roughly a third as many inverse references.
pub fn build_hubs(env: &Env, rng: &mut Rng, sizes: &[usize]) -> Hubs {
    let mut a = env.address_space.write();
    let ns = env.ns;
    let folder = NodeId::new(ns, "vh");
    ObjectBuilder::new(&folder, QualifiedName::new(ns, "vh"), "vh")
        .is_folder()
        .organized_by(ObjectId::ObjectsFolder)
        .insert(&mut a);
    let mut hubs = Vec::new();
    let mut spare = Vec::new();
    for (h, &n) in sizes.iter().enumerate() {
        let hub = NodeId::new(ns, format!("hub{}_{}", h, n));
        ObjectBuilder::new(&hub, QualifiedName::new(ns, format!("hub{}", h)), format!("hub{}", h))
            .is_folder()
            .organized_by(folder.clone())
            .insert(&mut a);
        let mut fwd = 0usize;
        for i in 0..n {
            let t = NodeId::new(ns, format!("t{}_{}", h, i));
            let name = QualifiedName::new(ns, format!("t{}_{}", h, i));
            let rt = *rng.pick(FWD_TYPES);
            // the node itself, of a random class
            match rng.below(6) {
                0 | 1 => {
                    ObjectBuilder::new(&t, name, format!("T{}", i)).insert(&mut a);
                }
                2 | 3 => {
                    VariableBuilder::new(&t, name, format!("T{}", i))
                        .data_type(DataTypeId::Int32)
                        .value(i as i32)
                        .insert(&mut a);
                }
                4 => {
                    MethodBuilder::new(&t, name, format!("T{}", i))
                        .callback(Box::new(Echo))
                        .insert(&mut a);
                }
                _ => {
                    // dangling: no node behind the reference, Browse must skip it
                }
            }
            a.insert_reference(&hub, &t, rt);
            fwd += 1;
            // a second reference of another type to the same target now and then
            if rng.chance(1, 10) {
                let rt2 = *rng.pick(FWD_TYPES);
                if rt2 != rt {
                    a.insert_reference(&hub, &t, rt2);
                    fwd += 1;
                }
            }
            // give some object/variable targets a type definition so that the result mask bit has something to say
            if rng.chance(1, 3) && a.node_exists(&t) {
                match a.find_node(&t).map(|n| n.node_class()) {
                    Some(NodeClass::Object) => a.set_node_type(&t, ObjectTypeId::FolderType),
                    Some(NodeClass::Variable) => a.set_node_type(&t, VariableTypeId::BaseDataVariableType),
                    _ => {}
                }
            }
        }
        // inverse references: other nodes pointing at the hub
        let inv_n = n / 3 + (n > 0) as usize;
        for i in 0..inv_n {
            let s = NodeId::new(ns, format!("s{}_{}", h, i));
            let name = QualifiedName::new(ns, format!("s{}_{}", h, i));
            if rng.chance(5, 6) {
                ObjectBuilder::new(&s, name, format!("S{}", i)).insert(&mut a);
                spare.push(s.clone());
            }
            let rt = *rng.pick(FWD_TYPES);
            a.insert_reference(&s, &hub, rt);
        }
        hubs.push((hub, fwd, inv_n + 1));
    }
    for i in 0..40 {
        let s = NodeId::new(ns, format!("spare{}", i));
        ObjectBuilder::new(&s, QualifiedName::new(ns, format!("spare{}", i)), format!("spare{}", i))
            .organized_by(folder.clone())
            .insert(&mut a);
        spare.push(s);
    }
    Hubs { folder, hubs, spare }
}
