//! View / attribute / whole-server robustness workloads (C30 paged browse, C32 attribute access, C33 no crash).
#[allow(unused_imports)]
pub(crate) use vh_common::{common, gen, pki};
pub mod env;
pub mod c30;
pub mod c32;
pub mod c33;
pub mod c33_gen;
pub mod util;
pub mod p_view;
pub use p_view::{child, dispatch};
