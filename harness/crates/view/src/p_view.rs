//! C30 paged browse, C32 attribute access, C33 no crash from an activated session.
use crate::common::*;

pub fn dispatch(args: &Args, rep: &mut Report) -> bool {
    match args.prop.as_str() {
        "C30" => c30(args, rep),
        "C32" => c32(args, rep),
        "C33" => c33(args, rep),
        _ => return false,
    }
    true
}

pub fn child(name: &str, rest: &[String]) -> Option<i32> {
    match name {
        "view-c33" => Some(crate::c33::child_main(rest)),
        _ => None,
    }
}

/// C30: paged browse equals unlimited browse; continuation points single-use, die on release and edit, bounded
pub fn c30(args: &Args, rep: &mut Report) {
    crate::c30::run(args, rep)
}

/// C32: attribute reads/writes against a shadow map; access levels, type compatibility, index ranges, totality
pub fn c32(args: &Args, rep: &mut Report) {
    crate::c32::run(args, rep)
}

/// C33: random request sequences of every service through the real message handler, in child processes
pub fn c33(args: &Args, rep: &mut Report) {
    crate::c33::run(args, rep)
}
