//! Small helpers shared by the workloads of this group.
use crate::common::PanicInfo;

/// Panic signature that stays the same for the same call site whatever the input was: the text of
/// `PanicInfo::signature()` with echoed input (quoted strings, node ids, non-ASCII) removed.
pub fn psig(p: &PanicInfo) -> String {
    let mut msg = p.msg.clone();
    if msg.contains("is not a char boundary") {
        msg = "byte index is not a char boundary".to_string();
    }
    // cut where a node id or another echoed value starts
    for marker in [" ns=", " i=", " s=", " g=", " b=", "NodeId {", "NodeId(", " svr=", " nsu="] {
        if let Some(i) = msg.find(marker) {
            msg.truncate(i);
        }
    }
    let msg: String = msg.chars().map(|c| if c.is_ascii() { c } else { '?' }).collect();
    PanicInfo {
        file: p.file.clone(),
        line: p.line,
        msg,
    }
    .signature()
}

pub fn shorten(s: &str, n: usize) -> String {
    if s.len() <= n {
        return s.to_string();
    }
    let mut e = n;
    while !s.is_char_boundary(e) {
        e -= 1;
    }
    format!("{}…", &s[..e])
}
