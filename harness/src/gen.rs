//! Structure-aware value generators shared by the workloads.
#![allow(dead_code)]
