//! Verification harness for locka99/opcua. One binary, one sub-command per property workload.
//! Usage: vh <PROP> --tier quick|thorough --seed N --shard i --shards n --out file [--replay file]
//!        vh --child <name> [args..]     (isolated sub-case, used internally)

// One library crate per workload group under crates/; each offers dispatch(&Args, &mut Report) -> bool
// and optionally child(&str, &[String]) -> Option<i32>.
use vh_common::common::{self, *};

#[global_allocator]
static ALLOC: common::alloc_count::Counting = common::alloc_count::Counting;

fn parse_args() -> Args {
    let a: Vec<String> = std::env::args().collect();
    let mut args = Args {
        prop: a.get(1).cloned().unwrap_or_default(),
        tier: std::env::var("VERIF_TIER").unwrap_or_else(|_| "quick".into()),
        seed: 1,
        shard: 0,
        shards: 1,
        out: "/verif/work/out.json".into(),
        replay: None,
        extra: vec![],
    };
    let mut i = 2;
    while i < a.len() {
        let take = |i: usize| a.get(i + 1).cloned().unwrap_or_default();
        match a[i].as_str() {
            "--tier" => {
                args.tier = take(i);
                i += 2;
            }
            "--seed" => {
                args.seed = take(i).parse().unwrap_or(1);
                i += 2;
            }
            "--shard" => {
                args.shard = take(i).parse().unwrap_or(0);
                i += 2;
            }
            "--shards" => {
                args.shards = take(i).parse().unwrap_or(1);
                i += 2;
            }
            "--out" => {
                args.out = take(i);
                i += 2;
            }
            "--replay" => {
                args.replay = Some(take(i));
                i += 2;
            }
            _ => {
                args.extra.push(a[i].clone());
                i += 1;
            }
        }
    }
    args
}

fn main() {
    let argv: Vec<String> = std::env::args().collect();
    install_panic_hook();
    if argv.get(1).map(|s| s.as_str()) == Some("--child") {
        let name = argv.get(2).cloned().unwrap_or_default();
        let rest: Vec<String> = argv[3.min(argv.len())..].to_vec();
        // canaries for the instrumented passes: the driver requires the sanitizer / interpreter to flag
        // canary-oob before it believes that tool's silence on the workload
        if name == "canary-ok" {
            std::process::exit(0);
        }
        if name == "canary-oob" {
            let v: Vec<u8> = vec![1u8; 8 + rest.len()];
            let p = v.as_ptr();
            // deliberate heap out-of-bounds read, one past the allocation
            let x = unsafe { std::ptr::read_volatile(p.add(v.len() + 8)) };
            println!("canary read {}", x);
            std::process::exit(0);
        }
        // isolated sub-cases: each module claims the names it knows, None = not mine
        let code = None
            .or_else(|| vh_codec::child(&name, &rest))
            .or_else(|| vh_events::child(&name, &rest))
            .or_else(|| vh_view::child(&name, &rest))
            .or_else(|| vh_aspace::child(&name, &rest))
            .or_else(|| vh_chan::child(&name, &rest))
            .unwrap_or_else(|| {
                eprintln!("unknown child {}", name);
                2
            });
        std::process::exit(code);
    }
    let args = parse_args();
    let mut rep = Report::new(&args);
    // every workload module offers dispatch(prop, args, rep) -> handled?
    let handled = vh_codec::dispatch(&args, &mut rep)
        || vh_misc::dispatch(&args, &mut rep)
        || vh_crypto::dispatch(&args, &mut rep)
        || vh_frame::dispatch(&args, &mut rep)
        || vh_monit::dispatch(&args, &mut rep)
        || vh_sess::dispatch(&args, &mut rep)
        || vh_subs::dispatch(&args, &mut rep)
        || vh_chan::dispatch(&args, &mut rep)
        || vh_renew::dispatch(&args, &mut rep)
        || vh_client::dispatch(&args, &mut rep)
        || vh_aspace::dispatch(&args, &mut rep)
        || vh_locks::dispatch(&args, &mut rep)
        || vh_view::dispatch(&args, &mut rep)
        || vh_text::dispatch(&args, &mut rep)
        || vh_events::dispatch(&args, &mut rep);
    if !handled {
        eprintln!("unknown property {}", args.prop);
        std::process::exit(2);
    }
    rep.write(&args);
}
