use crate::common::*;
pub fn child(_n: &str, _rest: &[String]) -> i32 { 0 }
pub fn c01(_args: &Args, _rep: &mut Report) {}
