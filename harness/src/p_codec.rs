//! C01, C02, C03: binary codec round trip, totality and limits.
use crate::common::*;

pub fn child(_name: &str, _rest: &[String]) -> Option<i32> {
    None
}

pub fn dispatch(args: &Args, rep: &mut Report) -> bool {
    match args.prop.as_str() {
        "C01" => c01(args, rep),
        _ => return false,
    }
    true
}

pub fn c01(_args: &Args, _rep: &mut Report) {}
