"""Offline oracle for C13 (secure-channel key derivation).

Reads the kdf_<shard>.jsonl files the C13 shards wrote (one line per observation of the real
SecureChannel / SecurityPolicy::make_secure_channel_keys) and recomputes every key from scratch:
RFC 5246 section 5 P_hash with HMAC-SHA1 / HMAC-SHA256 (python hmac + hashlib), the key-length
table of OPC UA Part 6 (6.7.5, table 33) / Part 7 security policies. Shares no code with the
repository or with the Rust harness.
"""
import glob
import hashlib
import hmac
import json
import os

# policy -> (hash, signing key length, encrypting key length, encrypting block size) in bytes
TABLE = {
    "Basic128Rsa15": ("sha1", 16, 16, 16),
    "Basic256": ("sha1", 24, 32, 16),
    "Basic256Sha256": ("sha256", 32, 32, 16),
    "Aes128-Sha256-RsaOaep": ("sha256", 32, 16, 16),
    "Aes256-Sha256-RsaPss": ("sha256", 32, 32, 16),
}


def p_hash(hash_name, secret, seed, length):
    """P_hash(secret, seed) = HMAC(secret, A(1) + seed) + HMAC(secret, A(2) + seed) + ...
    A(0) = seed, A(i) = HMAC(secret, A(i-1))"""
    digest = getattr(hashlib, hash_name)
    out = b""
    a = seed
    while len(out) < length:
        a = hmac.new(secret, a, digest).digest()
        out += hmac.new(secret, a + seed, digest).digest()
    return out[:length]


def derive(policy, secret, seed):
    h, s, e, b = TABLE[policy]
    stream = p_hash(h, secret, seed, s + e + b)
    return stream[:s], stream[s:s + e], stream[s + e:s + e + b]


def _keys(v):
    return tuple(bytes.fromhex(x) for x in v)


def c13_oracle(rundir, shard_reports):
    violations = []
    counters = {"oracle_lines": 0, "oracle_key_tuples_recomputed": 0, "oracle_role_pairs_compared": 0}
    notes = []
    inconclusive = []
    distinct = set()
    seen = {}  # (policy, keys) -> (secret without trailing zeros, seed)
    files = sorted(glob.glob(os.path.join(rundir, "kdf_*.jsonl")))
    if not files:
        return {"inconclusive": ["C13 offline oracle: no kdf_*.jsonl key logs in %s" % rundir]}

    def viol(sig, detail, case):
        if sum(1 for v in violations if v["signature"] == sig) < 3:
            violations.append({"signature": sig, "detail": detail, "replay": case})

    def check(policy, what, secret, seed, got, case):
        counters["oracle_key_tuples_recomputed"] += 1
        h, s, e, b = TABLE[policy]
        want = derive(policy, secret, seed)
        for name, g, w, n in zip(("signing-key", "encrypting-key", "iv"), got, want, (s, e, b)):
            if len(g) != n:
                viol("kdf|wrong-length|%s|%s" % (name, policy),
                     "%s %s: %s has %d bytes, Part 6 says %d" % (what, policy, name, len(g), n), case)
            elif g != w:
                viol("kdf|wrong-value|%s|%s" % (name, h),
                     "%s %s: %s = %s but P_%s(secret=%s, seed=%s) gives %s (python reference)" %
                     (what, policy, name, g.hex(), h, secret.hex(), seed.hex(), w.hex()), case)
        # HMAC pads its key with zero bytes: secrets that differ only in trailing zeros are the same key by
        # construction, so they are not "different nonces" for the purpose of the distinctness claim
        me = (secret.rstrip(b"\x00"), seed)
        k = (policy, got)
        other = seen.get(k)
        if other is None:
            seen[k] = me
        elif other != me:
            viol("kdf|same-keys-for-different-nonces|%s" % h,
                 "%s: (secret %s, seed %s) and (secret %s, seed %s) give the same key tuple" %
                 (policy, secret.hex(), seed.hex(), other[0].hex(), other[1].hex()), case)

    for path in files:
        with open(path) as f:
            for n, line in enumerate(f):
                line = line.strip()
                if not line:
                    continue
                try:
                    o = json.loads(line)
                except ValueError:
                    inconclusive.append("C13 offline oracle: unreadable line %d in %s" % (n, os.path.basename(path)))
                    continue
                counters["oracle_lines"] += 1
                policy = o["policy"]
                if policy not in TABLE:
                    inconclusive.append("C13 offline oracle: unknown policy %r" % policy)
                    continue
                if o["via"] == "make_keys":
                    secret = bytes.fromhex(o["secret"])
                    seed = bytes.fromhex(o["seed"])
                    case = {"via": "make_keys", "policy": policy, "client_nonce": o["secret"], "server_nonce": o["seed"]}
                    check(policy, "make_secure_channel_keys", secret, seed, _keys(o["keys"]), case)
                    distinct.add("py|mk|%s|%d|%d" % (policy, len(secret), len(seed)))
                    continue
                cn = bytes.fromhex(o["client_nonce"])
                sn = bytes.fromhex(o["server_nonce"])
                case = {"via": o["via"], "policy": policy, "client_nonce": o["client_nonce"], "server_nonce": o["server_nonce"]}
                cl, cr = _keys(o["client_local"]), _keys(o["client_remote"])
                sl, sr = _keys(o["server_local"]), _keys(o["server_remote"])
                # Table 33: client keys use secret = server nonce, seed = client nonce; server keys the reverse
                check(policy, "client-role channel, keys it secures with", sn, cn, cl, case)
                check(policy, "server-role channel, keys it secures with", cn, sn, sl, case)
                counters["oracle_role_pairs_compared"] += 1
                if cl != sr:
                    viol("kdf|ends-disagree|client-sends",
                         "%s: client secures with %s, server verifies with %s" %
                         (policy, [k.hex() for k in cl], [k.hex() for k in sr]), case)
                if sl != cr:
                    viol("kdf|ends-disagree|server-sends",
                         "%s: server secures with %s, client verifies with %s" %
                         (policy, [k.hex() for k in sl], [k.hex() for k in cr]), case)
                distinct.add("py|%s|%s|%d|%d" % (o["via"], policy, len(cn), len(sn)))
    counters["oracle_distinct_key_tuples"] = len(seen)
    return {
        "violations": violations,
        "counters": counters,
        "notes": notes,
        "inconclusive": inconclusive,
        "distinct": sorted(distinct),
    }
