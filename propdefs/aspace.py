from props import prop

prop(
    "C28",
    title="The reference index always matches the set of references",
    technique="runtime monitor: set-of-triples reference model beside the real References index; after every "
              "insert / delete-reference / delete-node every forward, inverse, typed, both-direction and "
              "has_reference answer for every node of the universe is compared with the model",
    rule="case = one history of operations on a fresh References. (a) exhaustive: every history of length 3 "
         "(quick) / 4 (thorough) over 3 nodes x 2 reference types and the alphabet {insert, delete-reference of "
         "every ordered pair and type, delete-node of every node} (27 ops), split over the shards; (b) seeded "
         "random histories of 4..60 (quick) / 4..200 (thorough) ops over 6 nodes (numeric, string, byte-string "
         "ids in 4 namespaces) x 3 types (two built-in, one custom), through all four insertion entry points, "
         "biased to opposite-direction pairs, several types on one pair, deletes of existing references and "
         "re-insertion. distinct = (universe, length bucket, delete-with-opposite-pair, delete-with-other-type-on-"
         "pair, delete-of-absent, node-delete-with-in-and-out, re-insert, self-reference attempt). A failing "
         "history is minimised op by op under the same signature.",
    design_ref="4 C28",
    level_text="Held means: on every explored history the real index answered every query exactly as the set of "
               "references added and not removed, after every single operation. The short-history part is "
               "exhaustive within its stated bound; the long histories are a seeded sample.",
    level_note="Trusted: the 10-line set model in harness/crates/aspace/src/c28.rs. A self-reference insert is "
               "accepted either as the documented refusal (panic, nothing changed) or as a normal insert. The "
               "return values of delete_reference / delete_node_references are not judged (the property does not "
               "name them). Subtype-filtered queries are exercised by C31, not here.",
    shards={"quick": 4, "thorough": 16},
    exhaustive={"quick": False, "thorough": False},
)

prop(
    "C29",
    title="Deleting a node terminates and leaves no dangling references",
    technique="runtime monitor with process isolation: each deletion runs in a child process on a 256 kB stack "
              "against a real AddressSpace holding the standard node set; termination is observed as the child "
              "returning (a stack overflow kills it and is attributed to the case in flight); the post-state is "
              "compared with the aggregation closure the harness computed from the pre-state",
    rule="case = (graph of 1..7 object/variable nodes, extra references to/from standard nodes and to ids that "
         "are not nodes, optional earlier reference deletions, node to delete, deleteTargetReferences flag, entry "
         "point AddressSpace::delete or the DeleteNodes service). Shard 0 first runs a systematic family: "
         "aggregation cycles of length 2..4 with every member deleted, tail into a cycle, tree, diamond, shared "
         "child, chain, opposite-direction pair, broken cycle, non-aggregating cycle, non-node ids, for each of 4 "
         "aggregating reference types x flag x entry point; the rest is seeded random. distinct = (size of the "
         "aggregation-reachable set, cycle reachable, deleted node on the cycle, shared child, inbound reference "
         "from outside, non-node id involved, earlier deletions, flag, entry point)",
    design_ref="4 C29",
    level_text="Held means: every explored deletion returned on a 256 kB stack without panic, and with "
               "deleteTargetReferences the deleted node and every node reachable from it over Aggregates-subtype "
               "references were gone, no forward or inverse listing of any node of the case mentioned a removed "
               "node, and no other generated node disappeared.",
    level_note="Termination is decided by the stack bound, not by time: graphs have at most 7 nodes, so a "
               "terminating recursion needs a few frames while a non-terminating one exhausts any stack. Without "
               "the deleteTargetReferences flag only termination and absence of panics are judged, as the "
               "property speaks of deletion with target references. HasSubtype cycles among reference types are "
               "not generated (the library's subtype search would not return). Cases whose generated graph has an "
               "aggregation cycle reachable from the deleted node run in a fork of the runner; after 12 (quick) / "
               "24 (thorough) such forks per shard have died, further cases of that kind are skipped and counted "
               "(cyclic_cases_skipped_after_crash_budget), and once 3 in a row return they run in-process like the "
               "rest. Nodes only reachable through ids that are not nodes may or may not be removed. Trusted: the "
               "closure code at the "
               "top of harness/crates/aspace/src/p_aspace.rs.",
    shards={"quick": 4, "thorough": 16},
)

prop(
    "C31",
    title="Browse path translation finds exactly the matching nodes",
    technique="runtime monitor: the real TranslateBrowsePathsToNodeIds service (via the cfg hook) on a real server "
              "address space, compared per path with a level-by-level breadth-first search written in the harness "
              "over unfiltered find_references / find_inverse_references, with the harness's own HasSubtype closure",
    rule="world = standard node set + 6..16 generated objects/variables with ambiguous browse names in namespaces "
         "0..2, three custom reference types (subtype of HasComponent, subtype of that, subtype of "
         "NonHierarchicalReferences), random references among them, into standard nodes and to an id that is not "
         "a node; edited between requests. path = random walk of 1..5 steps over the real forward and inverse "
         "references from a generated or standard start, each element taking the walked reference's type, one of "
         "its supertypes, null, or a random type (built-in, custom, unknown id, id of a non-reference-type node), "
         "random subtype flag, direction mostly as walked, target name mostly the walked node's, sometimes wrong "
         "namespace / other / null; 1..4 paths per request. distinct = (start kind, length, reference type "
         "classes, any inverse, any subtypes, size of the expected set 0/1/many). On a mismatch the path's "
         "prefixes are translated to find the first element at which the answers part.",
    design_ref="4 C31",
    level_text="Held means: for every compared path the set of returned targets (a Bad status counts as the empty "
               "set) equalled the reference search's set. A null reference type is read as 'any reference' as "
               "Part 4 says.",
    level_note="Not judged (only watched for panics): paths whose start is not a node, paths without elements, and "
               "paths with a null target name. Duplicated targets in one answer are counted, not judged. "
               "HasSubtype cycles are never generated: the library's subtype search has no visited set and would "
               "not return. Trusted: c31_oracle and subtype_closure in the harness.",
    shards={"quick": 4, "thorough": 16},
)

prop(
    "C34",
    title="Node management results describe what actually happened",
    technique="runtime monitor: histories of AddNodes / AddReferences / DeleteNodes / DeleteReferences through the "
              "real services (cfg hooks) on a real server with a session that may modify the address space; the "
              "whole nameable address space (standard node set closure, every id of the history, a window of ids "
              "ahead of the global numeric-id counter) is snapshotted through the public read API before and after "
              "every request",
    rule="case = one history of 6..36 (quick) / 6..60 (thorough) requests on a pristine server. Requested ids come "
         "from a small pool so that ids are reused after deletion, and from the ids just ahead of the global "
         "counter (probed at history start) so that server-assigned ids meet occupied ones; parents, reference "
         "types, classes, attribute objects, type definitions, browse names (plain, namespaced, with path-syntax "
         "characters, long, empty, null) and server indices are drawn from valid and invalid values; 1/16 of the "
         "requests carry 2..3 items, 1/16 none, 1/18 come from a read-only session. Four directed histories run "
         "first on shard 0. distinct = (length bucket, services used, server-assigned id, near-counter requested "
         "id, multi-item, read-only, id re-use after delete)",
    design_ref="4 C34",
    level_text="Held means: on every explored history each Good AddNodes item named an id that was not a node "
               "before, is a node after, and has_reference(parent, new, type) holds; every request whose items were "
               "all Bad (or that was answered by a service fault) left the snapshot unchanged; and no request "
               "panicked.",
    level_note="A request with both Good and Bad items is only checked for its Good AddNodes items (the snapshot "
               "cannot attribute a change to one item). Good results of AddReferences / DeleteNodes / "
               "DeleteReferences are not judged: the property makes no claim about them. DeleteNodes requests that "
               "would walk an aggregation cycle are not sent (C29 decides those; the process would die). "
               "AddReferences never gets HasSubtype, so no cyclic type hierarchy arises. Nodes without any "
               "reference to the rest of the standard node set are outside the snapshot.",
    shards={"quick": 8, "thorough": 16},
)
