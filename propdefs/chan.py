from props import prop
from chan_kdf import c13_oracle

prop(
    "C07",
    title="Any message survives chunking and channel security unchanged",
    technique="runtime monitor: two real SecureChannels (client role, server role) opened through the real OPN exchange; "
              "every message goes through Chunker::encode + apply_security and verify_and_remove_security + "
              "validate_chunks + Chunker::decode; exact oracle on the decoded message, on the byte size of every chunk on "
              "the wire and on the sequence numbers / request ids / final flags read with the harness's own header parser",
    rule="MSG case = (policy None + 5 policies x Sign/SignAndEncrypt, direction, chunk size of {0, 8196, 8197, 8199, 8211, "
         "9001, 16384, 65535, seeded random}, message kind of write / read response / call with a position dependent "
         "ByteString, encoded length aimed at k x body-per-chunk + d for k in 1,2,3,5 and d in -1,0,+1 (thorough -2..+2 and "
         "random lengths)); OPN case = the Issue exchange of every admissible client x server key size pair (1024/2048 or "
         "2048/4096) at chunk sizes 0, 8196, 65535, plus Renew requests / responses whose nonce field length sweeps the plain "
         "text over the receiver's RSA block boundaries (thorough: every length 0..block+20). All cases of a channel run on "
         "the same pair of channels with running sequence numbers. distinct = (type, policy, mode, chunk size class, k, d, "
         "direction, message kind) resp. (policy, mode, key sizes, direction, RSA block count, distance to block boundary)",
    design_ref="4 C07",
    level_text="Held means: on every explored combination the receiver decoded exactly the message sent, the chunks carried "
               "consecutive sequence numbers, one request id, the final flag on the last chunk only, and no chunk on the wire "
               "was larger than the chunk size given to the sender.",
    level_note="OPN messages are single-chunk throughout (Part 6 requires it); multi-chunk OPN is not explored. Key sizes "
               "outside a policy's admissible range are not used. Equality is PartialEq on SupportedMessage plus equality of "
               "the re-encoded bytes. Trusted: the 40-line header parser in harness/crates/chan/src/p_chan.rs.",
    shards={"quick": 8, "thorough": 16},
    timeout={"quick": 600, "thorough": 3600},
)

prop(
    "C08",
    title="Modified or foreign secured chunks are never accepted",
    technique="runtime monitor: valid secured chunks (MSG single / intermediate / final, CLO, OPN request, OPN response) from "
              "real channel pairs are modified or re-secured under other keys / identities and fed to the real receive path "
              "(verify_and_remove_security, validate_chunks, Chunker::decode); oracle: no message may come out. The same on "
              "channel pairs taken through one and two real OPN Renew exchanges, where the receiver holds the keys of two "
              "tokens and picks them by the token id the chunk names",
    rule="per (policy of 5, mode Sign/SignAndEncrypt, direction): chunks of 3 sizes; modifications: every byte position "
         "XORed with a seeded non-zero value (exhaustive for chunks up to 1200 bytes, thorough 9001; larger: all header, "
         "signature, padding and block-edge positions plus a seeded sample), every single bit of the headers, truncation by "
         "1..33 bytes and extension by 1..33 bytes with message_size left and patched, an inner byte removed, cipher blocks "
         "duplicated / swapped / dropped, the same plain chunk secured with keys from other nonces (client nonce changed, "
         "server nonce changed, one bit), reflected to its sender, secured under another policy; OPN additionally: signed by "
         "another key than the header certificate, header certificate replaced, encrypted to another receiver, thumbprint "
         "of another certificate, a self-consistent OPN of a third identity on a channel with an established peer, an "
         "unsecured (policy None) OPN on a secured channel. Renewed channels, per (policy, mode): two histories on a fresh "
         "pair, open-renew-use-renew-use and open-renew-renew-use (Renew = real OPN Renew request / response with fresh "
         "seeded nonces, token id + 1; use = the client sends under the new token and the server takes it, then the server "
         "does the same towards the client; each use is the positive control); at every state in between (opened, renewed "
         "and new token unused, used by the client only, used by both, the same after the second renewal) both ends "
         "receive: every message recorded on the wire so far from either direction under every token (single chunk, two "
         "chunks, CLO) - reflected to its sender it must never come out, replayed to the other end it must not come out once "
         "that end has seen a newer token used (before that taking it is permitted and only counted); chunks of foreign "
         "senders (real SecureChannels keyed by setters + derive_keys) for every pair of (token id named: each issued one, 0, "
         "first - 1, last + 1, last + 1000, 0xFFFFFFFF) x (keys: unrelated nonces, the peer's keys of each issued token, the "
         "receiver's own keys of each issued token), except the peer's keys under their own token id; and the byte-level "
         "modifications above on the peer's single-chunk message under the previous token while that token is still "
         "admissible (quick: after the first renewal, thorough: every such state). distinct = (chunk kind, policy, mode, "
         "modification, region hit) resp. (history, state, receiver, relation of the named token to the receiver's tokens, "
         "key set, message)",
    design_ref="4 C08",
    level_text="Held means: none of the modified, foreign, reflected or superseded-token chunks explored led to a decoded "
               "message, on freshly opened channels and on channels renewed once and twice.",
    level_note="A panic of the receive path counts as 'not delivered' here (counter rejected_by_panic) and is reported by C09. "
               "An unmodified chunk of the peer under an older token that the receiver has not yet seen superseded by use of "
               "a newer one (Part 6 6.7.3) is not judged either way (counters older_token_chunk_of_the_peer_*). Token "
               "lifetimes do not expire during a run; expiry by time is not explored. Renewals change nonces and token id "
               "only, not policy or mode. "
               "For large OPN chunks under 4096-bit keys byte positions inside the certificate and the cipher text are "
               "sampled, not enumerated. Trusted: OpenSSL.",
    shards={"quick": 8, "thorough": 16},
    timeout={"quick": 600, "thorough": 3600},
)

prop(
    "C09",
    title="Secure-channel receive path is total on arbitrary peer bytes",
    technique="runtime monitor: structure-aware hostile OPN / MSG / CLO chunks, including ones a key-holding peer secures "
              "correctly around malformed contents, against real client- and server-role SecureChannels in every policy, "
              "mode and keying state; verify_and_remove_security, chunk_info, validate_chunks and Chunker::decode run under "
              "catch_unwind; a panic is the violation, attributed to the enclosing function",
    rule="case kinds: sym-truncate (valid MSG/CLO cut to every length, size patched or not), sym-extend, sym-craft (correctly "
         "signed and encrypted plain texts of every total length 16..120 with arbitrary contents), sym-nokeys (policy and "
         "mode set, keys not derived), opn-header (grid over policy uri {null, empty, None, unknown, the 5 policies, long} x "
         "sender certificate {null, empty, truncated DER, random, 1024/2048/4096 valid, oversize} x thumbprint {null, empty, "
         "19/20/21 bytes, right, wrong} x cipher text length {0, 1, key-1, key, key+1, 2 key}), opn-craft (properly "
         "encrypted plain texts: shorter than the signature, valid signature with padding bytes pointing outside the chunk, "
         "extra-padding byte forms, empty body), plain-sets (chunk lists for validate_chunks / decode with sequence numbers "
         "at u32::MAX, mixed request ids, final flags, chunk types, hostile bodies), random and mutated bytes; each against "
         "receivers {client, server} x {policy None with / without own certificate, each policy x Sign / SignAndEncrypt, "
         "keys derived or not}. distinct = (kind, receiver state, shape, outcome class)",
    design_ref="4 C09",
    level_text="Held means: every explored input made the receive path return a chunk or an error; nothing panicked.",
    level_note="The harness build has overflow checks on (the repository's test profile); a panic that is an arithmetic "
               "overflow says so in its detail, the release profile would wrap instead. Message body decoding is exercised "
               "lightly here (C02 owns it). Thorough additionally runs a reduced Aes256Sha256RsaPss corpus (the OAEP-SHA256 "
               "FFI) under valgrind memcheck when valgrind is installed; its absence is a note, not a verdict.",
    shards={"quick": 8, "thorough": 16},
    timeout={"quick": 600, "thorough": 3600},
)

prop(
    "C13",
    title="Channel keys are derived per the specification and agree on both ends",
    technique="runtime monitor with two independent reference oracles: key tuples of real client- and server-role "
              "SecureChannels (verif_keys hook) and of make_secure_channel_keys are compared in-process with RFC 5246 P_hash "
              "over OpenSSL HMAC and offline by oracles/chan_kdf.py (python hmac/hashlib, Part 6 length table)",
    rule="case = (policy of 5, client nonce, server nonce, route of {setters + derive_keys, make_secure_channel_keys, full OPN "
         "exchange}); the grid policy x length 0..64 on either / both sides is enumerated and split over the shards, plus "
         "related pairs (one bit apart, one byte longer / shorter, reversed, equal) and seeded random pairs; contents: zero, "
         "0xFF, repeated byte, counting, random with a zero tail, random. distinct = (route, policy, length and content "
         "class of both nonces, equal or not)",
    design_ref="4 C13",
    level_text="Held means: every derived signing key, encryption key and IV had the Part 6 length and equalled the reference "
               "P_SHA1 / P_SHA256 output at the Part 6 offsets, the keys one role secures with were the keys the other role "
               "verifies with, and no two different nonce pairs produced the same key tuple.",
    level_note="HMAC pads its key with zero bytes, so secrets that differ only in trailing zeros are the same secret by "
               "construction; the distinctness check treats them as equal. Nonces of a length other than the policy's are "
               "installed with set_local_nonce / set_remote_nonce because set_remote_nonce_from_byte_string refuses them. "
               "Trusted: OpenSSL's and Python's HMAC.",
    shards={"quick": 4, "thorough": 8},
    timeout={"quick": 600, "thorough": 1800},
    oracle=c13_oracle,
)
