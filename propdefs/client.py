from props import prop

prop(
    "C35",
    title="Every client request completes exactly once",
    technique="runtime monitor: invariant/obligation oracle over scripted histories of the real client TransportState "
              "(cfg hook), harness holds every oneshot receiver and inspects them after every single step",
    rule="case = transport limits (max inflight 1/2/3/8, max pending chunks 0/1/2/5, queue 1..8, channel id 0/7) + a script of "
         "6..46 steps drawn from: submit (deadline far / already past / 0..1500 us ahead; with or without callback), poll of "
         "wait_for_outgoing_message, awaited wait across a deadline, wait-until-deadline-passed, one response chunk "
         "(single, 2..7 chunks cut with MessageChunk::new, interleaved between requests, out of order, duplicated "
         "intermediate, duplicated final, never completed, abort chunk, sequence gap, stale sequence number, wrong channel id, "
         "foreign request handle; for the id of a live, timed-out, completed, never issued, not-yet-issued or callback-less "
         "request), ERR / ACK wire message, close(good/bad), activity after close; 11 fixed histories on shard 0; 40 000 histories quick, 2.4 million thorough. "
         "distinct = set of history features actually observed in the run of the case",
    design_ref="4 C35",
    level_text="After every step the monitor checks each receiver that resolved (a response only for the submission it was "
               "built for, complete, at the step that fed its final chunk; BadTimeout only at a deadline evaluation and not "
               "before the deadline; a bad status at close; never by a chunk carrying another id; a dropped sender only when "
               "the transport is closing) and each obligation (complete in-order response for a waiting request is delivered "
               "now; deadline in the past at a poll means timed out now; close resolves everything queued or in flight; a "
               "chunk for an id nobody waits for returns Ok and changes neither the pending set nor the sequence counter; "
               "request ids are never reused) and, at the end of the history, that no receiver is left unresolved. Held "
               "means none of these failed on the explored histories.",
    level_note="TransportState reads std::time::Instant::now(), so tokio's paused clock cannot expire a request (the wait "
               "would spin): deadlines are real instants at most 1.5 ms away and the verdict uses an interval rule over clock "
               "readings taken by the harness immediately before and after the call (deadline inside the call: either outcome "
               "accepted and counted), so machine speed changes coverage, never a verdict. Resolving 'twice' is impossible by "
               "type (oneshot). Not executed: TcpTransport::poll / the socket, SendBuffer::write, secured channels; the "
               "auto-close after a failed feed is replayed by the harness as tcp.rs does it. A response that arrives after "
               "the deadline but before any deadline evaluation is delivered by the code; the oracle accepts that. When a "
               "peer sends chunks of two different messages under one request id the client assembles a mixture; only "
               "'delivered to its own request, triggered by a final chunk for its id' is demanded then.",
    shards={"quick": 4, "thorough": 16},
    timeout={"quick": 300, "thorough": 1800},
)

prop(
    "C36",
    title="Each received notification is acknowledged exactly once",
    technique="runtime monitor: oracle over the event log of a decoding, fault-injecting proxy between the real client "
              "Session (event loop, SubscriptionEventLoop, Session::publish) and the real server on loopback TCP",
    rule="one live run per shard: scenario = (max inflight publish 1/2/3/4, publish timeout 1.2-2 s, min publish interval "
         "20/50/100 ms, one subscription at a time in three shards of four and two to three in the fourth, fault rate 6-20 % "
         "with bursts of up to 4 consecutive failures, 8 (thorough 14) subscription changes: replace, modify, create, delete, "
         "publishing off/on); variables change every 40 ms; the proxy fails a PublishRequest WITHOUT forwarding it by its own "
         "ServiceFault (BadTooManyPublishRequests, BadInternalError, BadTimeout, BadNoSubscription, BadServiceUnsupported), "
         "by silence until the client's publish timeout, or by silence plus a ServiceFault after the timeout; 1 forwarded "
         "response in 40 is delivered twice; server faults (BadNoSubscription while a subscription is being replaced) are "
         "requests that failed too. One evaluation per (subscription id, sequence number) response handed to the client; "
         "distinct = (inflight limit, data / empty message, how its acknowledgement travelled: direct or after which kinds "
         "of failed requests, number of requests between response and acknowledgement, verdict)",
    design_ref="4 C36",
    level_text="Over the proxy log, in order: every acknowledgement in a request must match a response carrying that "
               "(subscription, sequence number) handed to the client earlier and not yet matched by a request that "
               "succeeded (else: acknowledged twice / acknowledged before received / twice in one request); at the end every "
               "data notification must have been matched by a request that was forwarded and answered with a "
               "PublishResponse, unless it lies in the tail (fewer than max-inflight+3 successful requests after the point "
               "where the client had reported every failed publish) - so acknowledgements carried by a request that the "
               "proxy or the server failed must reappear. Held means no such event in the explored runs.",
    level_note="A live system: wall clock drives the workload and bounds the run (18 s + drain; thorough 2 x 50 s per shard) "
               "but no verdict; the run is inconclusive if loopback (127.0.0.1 and 127.0.0.2) is unavailable, the client "
               "loses the connection, too few notifications were seen, the drain never reaches the point where the client "
               "has reported all failed publishes, or the client timed out a request that had been forwarded. Acknowledging "
               "an empty (keep-alive) notification message is treated as optional, acknowledging it twice is not. While the "
               "server dropped notifications whenever no request was queued (its state before the subscription fixes) runs with "
               "two or more subscriptions saw mostly empty messages; three shards in four therefore keep one subscription at "
               "a time and replace / modify it while running. Not "
               "covered: reconnects and session transfer (publish futures dropped on disconnect), secured channels. Given "
               "(seed, shard) the scenario and the fault decisions per request ordinal are fixed; thread timing is not.",
    shards={"quick": 4, "thorough": 8},
    timeout={"quick": 240, "thorough": 900},
    min_distinct=4,
)
