from props import prop

prop(
    "C37",
    title="Reconnect back-off follows its policy and never overflows",
    technique="runtime monitor: reference-model oracle (u128 nanoseconds) over the real back-off iterator on a boundary grid plus seeded random policies, panics captured",
    rule="case = (max delay, retry limit, initial delay), 200 iterator steps each; the full edge grid "
         "(0, 1ns, powers of two +-1, Duration::MAX/4, /2, /2+1ns, MAX) x limits {0,1,2,10,199,200,250,u32::MAX,none} "
         "is enumerated on shard 0, the rest are seeded random. distinct = (doubling overflows Duration?, cap reached?, "
         "limit class, initial <,=,> max)",
    design_ref="4 C37",
    level_text="Every generated policy is run through the real ExponentialBackoff (via the cfg hook) and compared "
               "step by step with a saturating u128 reference; a panic anywhere is a violation. Held means: no "
               "mismatch and no panic on the explored policies for 200 steps each.",
    level_note="Trusted: the 12-line reference in harness/crates/misc/src/p_backoff.rs. Not reached: the retry counter after 2^32 "
               "steps of an unlimited policy (a u32 that would overflow-panic only in builds with overflow checks).",
    shards={"quick": 2, "thorough": 8},
)
