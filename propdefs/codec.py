from props import prop

prop(
    "C01",
    title="Binary encoding round-trips every valid value exactly",
    technique="runtime monitor: exact round-trip oracle (length, stream position, value, canonical re-encoding) over "
              "structure-aware generated built-ins and decoder-driven values of every generated structure and message",
    rule="three generators: (a) direct values of every built-in type incl. Variant scalars/arrays/multi-dim arrays/"
         "nested Variant, DataValue, ExtensionObject, DiagnosticInfo, with the documented normalisations applied to the "
         "expected side only; (b) for every type under types/service_types that implements BinaryEncoder (enumerated "
         "from the source tree at build time) the real decoder pulls bytes from a biased generator and every accepted "
         "value is round-tripped; (c) the same through SupportedMessage::decode_by_object_id for every object id it "
         "supports. distinct = (generator, type, shape or size bucket, normalised?)",
    design_ref="4 C01",
    level_text="For each value: byte_len == bytes written == encode's return, the decoder consumes exactly those bytes "
               "(sentinel tail), the decoded value equals the normalised original, re-encoding it gives identical bytes, "
               "and a value written after it in the same buffer reads back. Held = no failure on the values explored.",
    level_note="Trusted: the normalisation functions in harness/crates/codec/src/p_codec.rs (LocalizedText null/empty, empty-array "
               "dimensions). Decoder-driven values only reach what the decoder accepts; field contents are biased "
               "towards small lengths.",
    shards={"quick": 8, "thorough": 16},
    # thorough: ~4000 of the same round trips interpreted by Miri (encoder and decoder paths of every type)
    instrument={"thorough": [{"tool": "miri", "scale": 0.0002, "shards": 16, "timeout": 2400}]},
)

prop(
    "C02",
    title="Decoding arbitrary bytes never panics, overflows the stack or over-allocates",
    technique="runtime monitor: panic capture, allocation high-water mark per decode (counting global allocator) and "
              "process-level signal observation of nesting bombs run in isolated child processes on a 2 MB stack",
    rule="inputs: random bytes, biased structured bytes, mutated valid encodings (flip, truncate, extend, splice length "
         "fields, repeat prefix) decoded as every built-in type, every generated structure, every supported message, "
         "the tcp/chunk headers and through the framing codec, with default and minimal options; plus nesting bombs "
         "(DiagnosticInfo inner-info, Variant-in-Variant, DataValue-in-Variant, Variant-in-DataValue, DiagnosticInfo-in-"
         "Variant, nested variant arrays) at depths from within the limit to what max_message_size allows. "
         "distinct = (input kind, decoder, options, accepted?)",
    design_ref="4 C02",
    level_text="Refuted by a panic (caught per case), a child killed by a signal (stack exhaustion, abort), an "
               "allocation above a bound derived from the input length and the decoding limits, or a nesting deeper "
               "than the depth limit being accepted.",
    level_note="The allocation bound is generous (it is meant to catch allocations driven by declared lengths rather "
               "than by bytes present). The thorough tier additionally interprets about 5000 decodes of the same workload "
               "under Miri (16 processes), which would report undefined behaviour in any crate on the decode path "
               "(byteorder, bytes, chrono, uuid, the repository has no unsafe code there); the driver first requires "
               "Miri to flag a deliberate out-of-bounds read. Nesting bombs run only in the plain pass.",
    shards={"quick": 8, "thorough": 16},
    timeout={"quick": 900, "thorough": 3600},
    # thorough: the same decode workload, ~5000 decodes, interpreted by Miri (UB in any crate on the decode path)
    instrument={"thorough": [{"tool": "miri", "scale": 0.0016, "shards": 16, "timeout": 2400}]},
)

prop(
    "C03",
    title="Configured decoding limits are enforced exactly",
    technique="runtime monitor: exhaustive boundary grid (length x limit x nesting position) against the real decoders "
              "with a byte-counting reader for chunk sizes",
    rule="grid: kinds {String, ByteString, Int32 array, NodeId array, Variant array, multi-dim Variant array} x limits "
         "{0,1,7,100,8192,default} x declared lengths {-2,-1,0,1,limit-1,limit,limit+1,limit+2,i32::MAX,i32::MIN} x "
         "nesting {top level, in Variant, in DataValue, as array element, as field of a service structure, in an "
         "ExtensionObject body}; body supplied in full. Chunks: declared size around max_message_size through "
         "MessageChunk::decode with a counting reader and through TcpCodec. distinct = (kind, nesting, limit, relation "
         "of length to limit)",
    design_ref="4 C03",
    level_text="The whole grid is enumerated on every run (exhaustive over that grid): a length within the limit must "
               "be accepted, one above it rejected, an over-limit chunk rejected before its body is read.",
    level_note="Negative lengths other than -1 are recorded but not judged: the property speaks of lengths within / "
               "exceeding the maximum.",
    shards={"quick": 4, "thorough": 4},
    exhaustive={"quick": True, "thorough": True},
)
