from props import prop

prop(
    "C16",
    title="Encrypted user passwords round-trip, bind to the nonce, and never crash",
    technique="runtime monitor: the real legacy_password_encrypt / legacy_password_decrypt (and the identity-token "
              "wrappers) run on generated passwords, nonces, tampered ciphertexts and crafted plaintexts, and the same "
              "byte strings are put into UserNameIdentityTokens handed to ServerState::authenticate_endpoint of real "
              "servers (one per private key size and one deployed without certificate / private key); an exact "
              "reference over the plaintext bytes (length prefix, password, nonce tail) says which answers are allowed; "
              "panics captured per case",
    rule="case kinds: roundtrip (key 1024/2048/4096 x PKCS#1 / OAEP-SHA1 / OAEP-SHA256, password aimed at k*block-1, "
         "k*block, k*block+1 total plaintext size, 0..2048 UTF-8 bytes / <=512 characters in 1..4-byte alphabets incl. NUL, "
         "nonce length 0..64) followed by decrypts of the same ciphertext under one-bit-changed, shortened, extended, "
         "rotated and empty nonces and by tampered ciphertexts (byte dropped/added, block dropped/duplicated/swapped/zeroed, "
         "bit flipped); raw byte strings as ciphertext (null, empty, partial blocks, whole random blocks, constant blocks); "
         "crafted plaintexts encrypted with the real public_encrypt (length prefix off by one / zero / max / big-endian, "
         "plaintext shorter than the nonce, nonce reaching back into the prefix, non UTF-8 password, irregular block sizes). "
         "The hostile grid is enumerated for all 9 (key, padding) pairs and split over the shards; roundtrip cases are seeded "
         "random. Server cases: four servers built by Server::new (own key of 1024 / 2048 / 4096 bits, or an empty PKI "
         "directory so that server_pkey is None), each with three None/None endpoints (password security policy unset, "
         "Basic128Rsa15, Basic256Sha256) listing three password users (ASCII, empty, non-ASCII password); a token carries "
         "the policy id the server advertises, a configured / unknown / null user name, encryptionAlgorithm null, empty, "
         "one of the three Part 7 URIs or an unknown URI, and as password field: every raw and crafted input of the "
         "hostile grid (sent to the server owning that key under the matching algorithm and to the server without a key), "
         "null / empty / right / wrong / non-UTF-8 / 100-byte / one-block plain bytes, the right password encrypted with "
         "each padding (so labels match and mismatch), for another nonce, for another certificate, a wrong password, a "
         "truncated ciphertext, under a null and a 32-byte server nonce; plus seeded random tokens (nonce length 0..64 or "
         "null, random tampering, crafted length prefixes, passwords aimed at block boundaries). The server grid is "
         "enumerated and split over the shards (a tenth of it in the instrumented passes). "
         "distinct = (kind, key size, padding, block count, distance to block boundary, password alphabet, nonce "
         "length class, relation of the wrong nonce, tampering operation, root cause class of a crafted plaintext; for "
         "server cases: server key, endpoint, algorithm label, user class, password field class, nonce class, certificate "
         "encrypted for)",
    design_ref="4 C16",
    level_text="Held means: on every explored case the real decrypt returned the original password under the same nonce, "
               "returned an error under every other nonce that is not itself a suffix of password||nonce, never accepted "
               "a plaintext without room for the nonce, and never panicked on any byte string; and every "
               "ServerState::authenticate_endpoint call, on servers with and without a private key, returned a status "
               "instead of panicking, returned Ok only when the token carries the configured password of that user in "
               "plain text or encrypted for the server's certificate and the presented nonce under the padding its "
               "algorithm names (never on a server without a key, for an unknown algorithm, another certificate, another "
               "nonce or bytes that are no ciphertext), and accepted every untouched token of that kind.",
    level_note="A nonce that is a proper suffix of password||nonce names the same plaintext as (longer password, shorter "
               "nonce); the format cannot tell these apart, so such decrypts are only required to be consistent and are "
               "counted (wrong_nonce_is_suffix_of_plaintext). An inconsistent length prefix that is accepted is counted, "
               "not flagged. The thorough tier repeats a tenth of the workload on an AddressSanitizer build (nightly, -Zsanitizer=address; OpenSSL itself is not instrumented, so only overflows on the Rust side of the FFI buffers are visible); the driver first requires ASan to flag a deliberate out-of-bounds read. A hundredth of it also runs under valgrind memcheck on the plain build (addressability errors only), which does see inside libcrypto. "
               "Server cases call authenticate_endpoint directly with a presented nonce (so that nonce lengths 0..64 and a null "
               "nonce are reachable); the full ActivateSession path, including a server without a key, is C20's. Status codes of "
               "refusals are recorded, not judged. An empty-string encryptionAlgorithm is read as plain text by a server with a "
               "key and refused by one without: counted (server_empty_algorithm_read_as_plain), not judged. A refused right "
               "plain text password makes the run inconclusive (C20 judges it). "
               "Trusted: the 15-line plaintext reference and the ~40-line token reference (deny / must_ok in c16_server_case) "
               "in harness/crates/crypto/src/p_crypto.rs, and OpenSSL itself.",
    shards={"quick": 8, "thorough": 16},
    timeout={"quick": 600, "thorough": 3600},
    # thorough: a tenth of the workload again under AddressSanitizer (the OAEP-SHA256 path is the repository's only unsafe FFI)
    instrument={"thorough": [{"tool": "asan", "scale": 0.1, "shards": 8, "timeout": 1800},
                             # memcheck on the plain build also watches the OpenSSL side of the FFI (addressability only)
                             {"tool": "valgrind", "scale": 0.01, "shards": 8, "timeout": 1800}]},
)

prop(
    "C17",
    title="Signature data verifies exactly when made by the right key over the right data",
    technique="runtime monitor: the real create_signature_data / verify_signature_data over every signing policy x signer "
              "key size x contained-certificate key size; exact oracle: the untouched triple verifies Good, every single "
              "change of signature, nonce, certificate or signer does not",
    rule="case = (policy of 5, signer key 1024/2048/4096, contained certificate of 1024/2048/4096, nonce of the policy's "
         "length / 0 / 1 / 64 bytes, thorough adds three rounds of random lengths up to 128). Per case: every bit of every signature "
         "byte, signature length changes (null, empty, byte dropped/added at either end, "
         "constant, reversed), every bit of the nonce, nonce length changes, the contained certificate replaced, sampled "
         "single-bit changes of the certificate DER on the verifying side (when it still parses to different bytes) and on "
         "the signing side, signatures by another identity of the same size, of another size and by the contained identity, "
         "and verification against those certificates. The 45 combinations are enumerated and split over the shards. "
         "distinct = (what was changed, where (first/last/inner byte or variant), policy, signer key size)",
    design_ref="4 C17",
    level_text="Held means: every untouched signature verified Good and none of the changed inputs did, for all policies "
               "and key sizes, with all nonce bits and all signature bits covered.",
    level_note="Certificate byte changes are sampled (53 / 165 positions per case), not exhaustive. Verifying a signature "
               "under a different policy than it was made with is not part of the statement (Basic128Rsa15 and Basic256 "
               "share RSA-SHA1) and is not checked. A signature re-encoded with one leading zero byte more or less is the same "
               "signature value, not a changed byte: the answer is recorded (signature_same_value_other_length_*), not judged; "
               "on this tree OpenSSL's PSS path accepts a signature whose leading 0x00 was dropped. PSS salts and RSA "
               "encryption padding come from OpenSSL's own generator, so evaluation counts vary by a few between runs; the "
               "cases and verdicts do not. Trusted: OpenSSL.",
    shards={"quick": 8, "thorough": 16},
    exhaustive={"quick": False, "thorough": False},
)

prop(
    "C18",
    title="Certificate trust verdicts follow the configured trust store",
    technique="runtime monitor: the full decision table run against the real CertificateStore on a fresh PKI directory per "
              "row; oracle: the property's necessary conditions for Good as a boolean function of the row, plus two "
              "file-system checks after the call; the named X509 predicates are also driven directly at their boundaries",
    rule="row = trusted/ {absent, identical copy, another certificate / a one-bit-changed copy / garbage under the same file "
         "name} x rejected/ {absent, identical copy, other bytes under the same name} x trust_unknown x skip_verify x "
         "check_time x certificate {1024, 2048, 4096 bit} x {current, expired, not yet valid} x 5 policies (key length valid "
         "or not) x host name {not asked, match, mismatch} x application uri {not asked, match, mismatch} x entry point "
         "{validate_or_reject_application_instance_cert, validate_application_instance_cert}: 97200 rows, all run. Thorough "
         "widens host name to {.., IP match, one character short, one character long, empty} and uri likewise: 453600 rows, "
         "all run. Shard 0 also calls is_time_valid at start/end -1s, -1ms, exact, +1ms, +1s, and is_hostname_valid / "
         "is_application_uri_valid on near-miss strings. distinct = the row itself",
    design_ref="4 C18",
    level_text="Exhaustive over the stated table: Good was returned only for rows where the certificate was not in rejected/, "
               "an identical copy was in trusted/ or trust_unknown was on, the key length fits the policy and (unless "
               "skip_verify) the validity period (when check_time), host name and uri match; every certificate unknown to both "
               "directories with trust_unknown off was found byte-identical in rejected/ afterwards; no accepted certificate "
               "was.",
    level_note="'Accepted only if' is read as necessary conditions: rows where all conditions hold but the store still "
               "refuses (e.g. a different file under the same name in trusted/ with trust_unknown on) are counted "
               "(rows_all_conditions_hold_not_accepted), not flagged. check_time=false is read as the time part of "
               "'verification is skipped'. 'In the rejected store' means under the store's own file name or with identical "
               "bytes. The validity check inside the store uses the wall clock; the certificates' windows are ten years away "
               "from it on either side, and the exact edges are driven through is_time_valid(now) directly.",
    shards={"quick": 16, "thorough": 16},
    exhaustive={"quick": True, "thorough": True},
)
