from props import prop

prop(
    "C39",
    title="Event filters evaluate safely and with the specified operator semantics",
    technique="runtime monitor: reference evaluator written from the Part 4 filter-operator, conversion, precedence and "
              "truth tables plus a backtracking LIKE matcher, compared with the real operator::evaluate (cfg hook) and "
              "the public event_filter::validate / evaluate against three events raised in a real AddressSpace; panics "
              "captured per case, loops among element operands and 1000-element chains run in an isolated child "
              "process on a bounded stack",
    rule="case = one content filter (or one LIKE pattern/text pair). Workloads per shard: (1) LIKE patterns generated "
         "from the Part 4 grammar (% _ \\x [list] [^list] ranges, regex metacharacters, control and non-ASCII "
         "characters) against texts that are instances of the pattern mutated by one edit, plus hostile pattern soup "
         "(safety only); (2) single elements of every operator over literal operands of every scalar type at type "
         "boundaries (the same number in another type, +-1 neighbours, NaN, infinities, numeric strings, nulls) and "
         "event fields through SimpleAttributeOperands; (3) well-formed filters of 1-10 elements with forward element "
         "operands and shared sub-elements; (4) the same with exactly one malformation (too few / no / extra operands, "
         "element index out of range, self and backward references, AttributeOperand, null / garbage / wrong-type "
         "extension objects, unsupported operators, no elements); (5) filters containing a loop and legal chains of "
         "41-1000 elements, evaluated in a child with a 512 KiB / 2 MiB thread stack. Acceptance is whatever the "
         "public event_filter::validate returns Ok for. distinct = (workload, root operator, operand types, "
         "reference outcome set) resp. (LIKE feature set, expected result) resp. (malformation, reachability, loop)",
    design_ref="4 C39",
    level_text="Every accepted filter is evaluated by the real code for each of the three events through "
               "operator::evaluate and once through event_filter::evaluate; a panic, a process-killing signal or (for "
               "well-formed filters) a result outside the reference's set of Part-4-permitted results is a violation, "
               "as is a disagreement between the public selection and the hook-level result. A failing filter is "
               "reduced to the single element at fault with literal operands (LIKE: pattern and text are shrunk) and "
               "the signature names that input class. Held means: none of these on the explored filters.",
    level_note="Trusted: the reference evaluator (harness/crates/events/src/refeval.rs, like.rs). Where Part 4 leaves a "
               "result open the reference accepts every defensible outcome (comparison with a null operand: FALSE or "
               "NULL; NaN and +-0 comparisons, ordering of strings/booleans/status codes, String<->NodeId text forms, "
               "non-canonical numeric strings, bitwise operators on strings/booleans or on values not representable in "
               "the common type, most Cast targets: unspecified); NaN ordering is checked only through antisymmetry "
               "(a>b and b>a both TRUE). Not decided: cost of shared sub-elements (each path re-evaluates them; the "
               "leaf-read counters in the evidence show 2^depth), OfType/InView/RelatedTo (unsupported by the server), "
               "index ranges and non-Value attributes of SimpleAttributeOperands (safety only).",
    shards={"quick": 8, "thorough": 16},
    timeout={"quick": 900, "thorough": 3600},
    min_distinct=50,
)
