from props import prop

prop(
    "C15",
    title="No service is processed before the handshake or after channel close",
    technique="runtime monitor: four-state reference automaton over two observation points of the real server connection loop "
              "(TcpTransport::run on a loopback socket): the responses written to the socket and the server's own cumulated "
              "session count (ServerMetrics / server diagnostics); every frame sequence up to the bound enumerated, sent in "
              "lock step and with every short tail written back to back in one write",
    rule="case = a sequence over {HEL, OPN(Issue), OPN(Renew), OPN(Issue, security mode Invalid), OPN(Issue, protocol version "
         "other than the HEL's), MSG(GetEndpoints), MSG(CreateSession), MSG(Read), CLO} plus an arrival pattern. The two "
         "extra OPN kinds are requests the server turns down with a fault without issuing a channel. Contents are valid for "
         "the peer's view of the connection (the channel/token ids the server issued so far, increasing sequence numbers, "
         "unique request ids). Lock-step pattern: frame by frame to a fresh connection served by the real reading/writing "
         "tasks, waiting for each answer or EOF; all sequences up to length 5 (thorough 6) are decided: a sequence is run "
         "on a socket unless a proper prefix was observed to end with the server closing the connection (EOF), in which "
         "case nothing can be answered to the rest. Burst pattern: for the empty prefix and every lock-step prefix after "
         "which the connection is still open, every sequence of 2..3 (thorough 2..4) further frames (total length within "
         "the bound) is written in ONE write, so that the server's reader finds the frames in its buffer together; then the "
         "peer reads until every frame of the burst is answered or EOF. "
         "distinct = (arrival pattern, frame classes, reference state path, response/EOF/session shape per frame, sessions "
         "created by the burst)",
    design_ref="4 C15",
    level_text="Responses are attributed to frames by request id (ACKs to the HELs in order). The server's cumulated session "
               "count is sampled after every lock-step frame and after the connection task has ended (so it also counts "
               "requests whose responses were never written). The reference automaton (new, hello-done, channel-open, "
               "closed) forbids: anything but an ACK-to-HEL in new; any answer to MSG/CLO and anything but "
               "OpenSecureChannelResponse/ServiceFault to OPN in hello-done (an OPN answered with a fault leaves the state "
               "at hello-done); anything after a CLO or after the server closed; a session created while a lock-step frame "
               "other than a CreateSession on an open channel was being served; and more sessions created out of a burst "
               "than it holds CreateSession frames that met an open channel. Inside a burst the state walk is permissive "
               "where the confirming answer may legitimately be missing (HEL taken as acknowledged, an OPN in hello-done "
               "without a visible answer taken as having opened), a CLO closes. ERR frames and closing the connection are "
               "never violations. Held means no forbidden response and no forbidden session on any enumerated case.",
    level_note="Of the three service requests only CreateSession leaves a server-side trace (the session count); a GetEndpoints "
               "or Read that is processed without any answer is still invisible. Frames of a burst that follow an OPN(Issue) "
               "of the same burst carry the ids the peer knew when it wrote the burst, so the server refuses them; requests "
               "pipelined behind an open are therefore only exercised through the lock-step prefixes. One write on a "
               "loopback socket reaches the server's reader as one read in practice, not by guarantee; a split burst only "
               "loses reach, it cannot raise an alarm. "
               "Contents are the fixed ones of the alphabet (None security); secured channels and malformed frames "
               "are out of scope here. A silence timeout (250 ms, then 10 ms) only bounds the wait on a server that ignores a frame; it never runs out on the real tree and never decides a verdict (answers are attributed by request id), a 150 s / 900 s budget turns an exploding enumeration into inconclusive; so does a connection task that does not end after the peer hung up (session counts would not be attributable).",
    shards={"quick": 8, "thorough": 12},
    exhaustive={"quick": True, "thorough": True},
    timeout={"quick": 300, "thorough": 1200},
)

prop(
    "C10",
    title="Memory held for an incomplete incoming message is bounded",
    technique="runtime monitor: invariant over the pending-chunk list of the real server TcpTransport (cfg hook, no socket) "
              "sampled after every chunk of hostile histories, plus an exact oracle on TcpCodec::decode for declared frame sizes",
    rule="server case = (limit set, flavour, chunk body size, history length): HEL + OPN on a None channel, then a history of "
         "chunks that runs well past max_chunk_count and max_message_size; flavours: valid consecutive intermediates, repeated "
         "sequence number, foreign channel id, alternating request ids, random headers, abort chunks in between, OPN-typed "
         "intermediates, before any OPN, and real messages cut into k chunks with k and the byte total around both limits. "
         "codec case = (max_message_size, declared size from {0,8,9,max-1,max,max+1,max+2,2max,16max,2^20,2^24,2^31-1,2^31,"
         "u32::MAX-1,u32::MAX}, frame kind HEL/ACK/ERR/MSG/OPN/CLO x F/C/A), header fed byte by byte then a trickle of body. "
         "Grid enumerated, plus seeded random histories. distinct = (part, flavour or kind, limit set, size class, relation to limit)",
    design_ref="4 C10",
    level_text="After every chunk that the transport accepted without error the monitor reads verif_pending_chunks(): more "
               "chunks than max_chunk_count, or more buffered bytes (chunk headers included: what the transport holds in memory) than max_message_size, "
               "is a violation; so is a reassembled and answered message of more chunks / body bytes than the limits. An "
               "error return ends the history (the reading loop closes the connection). For the codec: a header declaring "
               "more than max_message_size must give Err as soon as more than the 8 header bytes are buffered; Ok(None) "
               "(waiting) or a frame is a violation.",
    level_note="Limits of 0 mean unlimited and make that half vacuous for the limit set concerned. Pending bytes are what verif_pending_chunks() reports (sum of the buffered chunks' lengths); the answered-message "
               "half counts body bytes. The codec may defer the rejection while exactly 8 bytes are buffered (its header "
               "test is strict); that is tolerated. RSS is logged, not judged. The client's max_pending_incoming is not "
               "part of the statement and not checked.",
    shards={"quick": 8, "thorough": 16},
    timeout={"quick": 300, "thorough": 1800},
)

prop(
    "C11",
    title="Framing is independent of how the byte stream is segmented",
    technique="runtime monitor: exact oracle (the frames that were sent) over the real TcpCodec fed every segmentation of small "
              "streams and random segmentations of large ones (plain decode calls and the real tokio_util FramedRead); "
              "byte-exact oracle over the real client SendBuffer drained through a scripted partial-write sink",
    rule="codec-small: every sequence of 1..3 (thorough 4) frames over 9 small shapes (ERR with/without reason, ACK, HEL, "
         "MSG/OPN/CLO chunks final/intermediate/abort, 12..44 bytes) written by hand from Part 6; for streams up to 17 "
         "(thorough 21) bytes every subset of cut positions, otherwise no cut, all single cuts, all pairs of cuts, byte at a "
         "time and every k-th byte for k=2..9. codec-large: seeded streams of 1..6 frames up to the maximum message size "
         "with 25 random segmentations each (few/many random cuts, fixed blocks 1..65536, cuts in and around every header, "
         "shifted frame boundaries), alternately through FramedRead with a scripted AsyncRead. sendbuf: messages of 0..5 "
         "chunks on a None and on a Sign channel drained like the client's poll loop through a sink that accepts a scripted "
         "number of bytes per call (every single split point of a small message, 1, k, 0-then-n, chunk size -1/0/+1, random, "
         "polls returning Pending and being cancelled), with refused messages (size / chunk limits) in between. "
         "distinct = (part, frame shapes or size class, segmentation mode / script, security, chunk count class)",
    design_ref="4 C11",
    level_text="Decoder: for each segmentation the decoded frames, re-encoded, must equal the frames sent, same count and "
               "order, no error, nothing left over. Send buffer: the sink's bytes must equal the concatenation of the "
               "real Chunker's chunks after the channel's apply_security, and decode back (real codec, receiving channel, "
               "Chunker::decode) to the messages written.",
    level_note="Exhaustive only inside the stated bounds (small streams, up to two cuts or all cut sets up to 17/21 bytes); "
               "large streams are sampled. Only valid frames are sent; error timing under segmentation is not judged. "
               "The Sign channel is keyed by setting nonces directly, no OPN exchange.",
    shards={"quick": 8, "thorough": 16},
    timeout={"quick": 300, "thorough": 1800},
)

prop(
    "C12",
    title="Sequence numbers increase by one per chunk and replays are rejected",
    technique="runtime monitor: invariant over the sequence headers of everything the real client SendBuffer (request ids from "
              "the real TransportState) and the real server MessageWriter emit over a history; reference-model oracle over the "
              "accept/reject decisions of the real server TcpTransport (cfg hook) and the real client TransportState for "
              "replayed, reordered, duplicated and renumbered chunks built with the real chunk encoder",
    rule="sender case = history of 1..12 (server 1..20) messages of 1..6 chunks on a None or Sign channel, drained through full, "
         "fixed-size and random partial writes, under no limits, a max_message_size, a max_chunk_count, or both (a request "
         "may fit the one and exceed the other). Half of the histories end at the first refused write (both real loops "
         "close the connection then); the other half keep writing to the same SendBuffer / MessageWriter after a refused "
         "write, so that refused requests are followed by accepted ones. A fixed grid guarantees every refusal kind "
         "(over max_chunk_count while within max_message_size, over max_message_size, for the writer also a response that "
         "does not fit its buffer on an unsecured channel) followed by accepted messages of one and several chunks and by "
         "further refusals. receiver case = history of presentations on a fresh connection (server: real HEL+OPN on a None "
         "channel, or a Sign channel keyed directly) / fresh client transport state with real pending requests: valid messages "
         "of 1,2,3,5 chunks (with forward gaps), then exact replay, replay under a fresh request id, first sequence number at "
         "last accepted +{-n-1..+2}, permuted order, permuted numbers, duplicated chunk, dropped chunk, jump inside, descending, "
         "mixed request ids, foreign channel id on one/all chunks, interleaved messages, numbering at u32::MAX-{0,1,2,3,1024}; "
         "grid over kinds x chunk counts x positions plus seeded random histories. A rejected presentation ends the history "
         "(connection closed). distinct = (part, security, op kinds with chunk-count class, observed accept/reject shape)",
    design_ref="4 C12",
    level_text="Sender: over all emitted chunks the sequence number grows by exactly 1, all chunks of a message carry the "
               "request id it was written with, the ids handed out by the transport state are pairwise distinct, and the "
               "number of messages on the wire equals the number of accepted writes; a refused write puts nothing on the wire and "
               "must not consume sequence numbers (a numbering flaw at the first chunk of a message written directly after "
               "refused writes is named |after-refused-write=<their status>). Receiver: whenever a message is "
               "accepted (server: a response is queued; client: the request's completion resolves Ok) the chunks that were "
               "presented for it must have distinct sequence numbers forming a run without gaps, all above every "
               "previously accepted one, one request id, and the channel's id; a panic in the receive path is a violation.",
    level_note="The oracle is one-sided as the property is: rejecting a valid message is not flagged. Sets, not order: a "
               "receiver that sorts or de-duplicates chunks (the client does) is not flagged for that. On the Sign channel "
               "valid messages are single-chunk only, because reassembly of secured multi-chunk messages fails for a reason "
               "that belongs to C07. Sender counters near u32::MAX are not reachable without 2^32 chunks. The server's "
               "MessageWriter never splits a message (chunk size 0), so its max_chunk_count refusal is unreachable; secured "
               "responses stay within the writer's buffer (an oversized one panics in apply_security, a send-path defect "
               "outside this property). Histories that continue after a refused write are not produced by the stock "
               "client/server loops, which close the connection; they are histories of the anchored mechanisms themselves.",
    shards={"quick": 8, "thorough": 16},
    timeout={"quick": 300, "thorough": 1800},
)
