"""C38: lock order. The shards run the real server under client load with the lock monitor on and
judge their own order graph; the offline oracle below judges the UNION of all shards' graphs (an
inversion may have its two halves in different shards) and computes the union coverage figures."""
import glob
import json
import os
import re

from props import prop

DOC_ORDER = ["server::ServerState", "server::Session", "server::AddressSpace"]
# Says WHICH edge of an already detected cycle is the out-of-line one (never whether there is a cycle): the documented
# order with the per-connection SessionManager in front, as every site but the method-call path takes it (see
# graph.rs::REF_ORDER). No acquisition count enters the decision.
REF_ORDER = ["server::SessionManager"] + DOC_ORDER
KIND = {0: "mutex", 1: "read", 2: "write"}


def _macro_sites(lib_src):
    """(file relative to lib/src, line) of every trace_*lock! use outside tests, comments and the macro definitions"""
    out = []
    for root, dirs, files in os.walk(lib_src):
        dirs[:] = sorted(d for d in dirs if d not in ("tests", "benches"))
        for f in sorted(files):
            if not f.endswith(".rs") or f == "tests.rs":
                continue
            path = os.path.join(root, f)
            rel = os.path.relpath(path, lib_src)
            try:
                lines = open(path, errors="replace").read().splitlines()
            except OSError:
                continue
            skip = None
            pending = False
            in_def = 0
            for i, line in enumerate(lines):
                t = line.lstrip()
                if skip is not None:
                    skip += line.count("{") - line.count("}")
                    if skip <= 0 and "}" in line:
                        skip = None
                    continue
                if t.startswith("#[cfg(test)]") or t.startswith("#[cfg(locka99_opcua_verif)]"):
                    pending = True
                    continue
                if pending:
                    if t.startswith("#[") or not t:
                        continue
                    pending = False
                    d = line.count("{") - line.count("}")
                    if d > 0:
                        skip = d
                    elif ";" not in line:
                        skip = 0
                    continue
                if t.startswith("macro_rules!") and "trace_" in t:
                    in_def = 1
                    continue
                if in_def > 0:
                    in_def += line.count("{") - line.count("}")
                    if in_def <= 1 and t.startswith("}"):
                        in_def = 0
                    continue
                if t.startswith("//"):
                    continue
                code = line.split("//")[0]
                for m in ("trace_lock!", "trace_read_lock!", "trace_write_lock!"):
                    if m in code:
                        out.append((rel, i + 1))
    return out


def _is_client(c):
    return "client::" in c


def _sccs(succ):
    index = {}
    low = {}
    on = set()
    stack = []
    out = []
    counter = [0]

    def strong(v):
        index[v] = low[v] = counter[0]
        counter[0] += 1
        stack.append(v)
        on.add(v)
        for w in sorted(succ.get(v, ())):
            if w not in index:
                strong(w)
                low[v] = min(low[v], low[w])
            elif w in on:
                low[v] = min(low[v], index[w])
        if low[v] == index[v]:
            comp = []
            while True:
                w = stack.pop()
                on.discard(w)
                comp.append(w)
                if w == v:
                    break
            if len(comp) > 1:
                out.append(sorted(comp))

    for v in sorted(succ):
        if v not in index:
            strong(v)
    return sorted(out)


def _chordless_cycles(edges, succ, comp, max_len=8, max_cycles=400):
    cs = set(comp)
    found = []

    def chordless(cyc):
        s = set(cyc)
        n = sum(1 for (a, b) in edges if a != b and a in s and b in s)
        return n == len(cyc)

    for start in comp:
        path = [start]

        def rec():
            if len(found) >= max_cycles:
                return
            tip = path[-1]
            for w in sorted(succ.get(tip, ())):
                if w not in cs or w <= start or w in path:
                    continue
                path.append(w)
                if start in succ.get(w, ()):
                    if chordless(path):
                        found.append(list(path))
                if len(path) < max_len:
                    rec()
                path.pop()

        rec()
    return found


def _writer_seen(edges, c):
    for (a, b), e in edges.items():
        for h, k in e["kinds"]:
            if a == c and h != 1:
                return e["from_site"]
            if b == c and k != 1:
                return e["to_site"]
    return None


def judge(edges):
    """Same decision procedure as harness/crates/locks/src/graph.rs::judge. Returns [(signature, detail, is_violation)]"""
    out = []
    inversions = set()
    succ = {}
    for (a, b), e in edges.items():
        if a != b and e["count"] > 0:
            succ.setdefault(a, set()).add(b)
            succ.setdefault(b, set())
    for comp in _sccs(succ):
        cycles = _chordless_cycles(edges, succ, comp)
        if not cycles:
            out.append(("cycle-component|" + ",".join(comp), "strongly connected lock classes: %r" % comp,
                        not all(_is_client(c) for c in comp)))
            continue
        for cyc in cycles:
            n = len(cyc)
            sig = "cycle|"
            detail = ""
            can_block = True
            why = []
            for i in range(n):
                a, b, prev = cyc[i], cyc[(i + 1) % n], cyc[(i - 1) % n]
                sig += a + ">"
                e = edges[(a, b)]
                kinds = ",".join("%s->%s" % (KIND.get(h, "?"), KIND.get(k, "?")) for h, k in sorted(e["kinds"]))
                detail += "[%s held (taken at %s) while taking %s at %s; seen %dx; kinds %s] " % (
                    a, e["from_site"], b, e["to_site"], e["count"], kinds)
                e_in = edges[(prev, a)]
                excl_in = any(k != 1 for _, k in e_in["kinds"])
                excl_out = any(h != 1 for h, _ in e["kinds"])
                if not (excl_in or excl_out or _writer_seen(edges, a)):
                    can_block = False
                    why.append("%s is only ever read-locked in this log" % a)
            sig += cyc[0]
            if can_block and not all(_is_client(c) for c in cyc):
                for i in range(n):
                    a, b = cyc[i], cyc[(i + 1) % n]
                    if a in REF_ORDER and b in REF_ORDER:
                        wrong = REF_ORDER.index(a) > REF_ORDER.index(b)
                    else:
                        # the reference order is silent: every edge of the cycle is named
                        wrong = True
                    if wrong:
                        inversions.add((a, b))
            if all(_is_client(c) for c in cyc):
                out.append(("client-" + sig, "cycle among client-side lock classes (outside the property): " + detail, False))
            elif can_block:
                out.append((sig, "lock-order cycle: each class is taken while the previous one is held, on some thread, and "
                                 "every class on it has an exclusive (or writer-queued) acquisition, so an interleaving that "
                                 "deadlocks exists. " + detail, True))
            else:
                out.append(("readonly-" + sig, "order inversion that cannot block (%s): %s" % ("; ".join(why), detail), False))
    for a, b in sorted(inversions):
        by_file = {}
        for f, t in sorted(edges[(a, b)].get("pairs", ())):
            by_file.setdefault(f.rsplit(":", 1)[0], []).append("%s then %s" % (f, t))
        for file, pairs in sorted(by_file.items()):
            out.append(("inversion|%s>%s|held@%s" % (a, b, file),
                        "%s is held while %s is taken, closing a lock-order cycle (against the order SessionManager, ServerState, "
                        "Session, AddressSpace where that order covers both classes); acquisition site pairs with the outer lock "
                        "taken in %s: %s" % (a, b, file, "; ".join(pairs)), True))
    for (a, b), e in sorted(edges.items()):
        if a != b:
            continue
        if e["same_instance"] > 0:
            w = _writer_seen(edges, a)
            fa = e["from_site"].rsplit(":", 1)[0]
            fb = e["to_site"].rsplit(":", 1)[0]
            out.append(("reentrant-read|%s|%s>%s" % (a, fa, fb),
                        "the same %s instance was read-locked again while already read-locked by the thread (%dx): taken at %s, "
                        "again at %s; writer seen: %s" % (a, e["same_instance"], e["from_site"], e["to_site"], w),
                        bool(w) and not _is_client(a)))
        if e["other_instance"] > 0:
            out.append(("nested-same-class|" + a,
                        "two different instances of %s were held together (%dx): %s then %s; recorded, not judged" % (
                            a, e["other_instance"], e["from_site"], e["to_site"]), False))
    for i in range(len(DOC_ORDER)):
        for j in range(i):
            e = edges.get((DOC_ORDER[i], DOC_ORDER[j]))
            if e and e["count"] > 0:
                kinds = ",".join("%s->%s" % (KIND.get(h, "?"), KIND.get(k, "?")) for h, k in sorted(e["kinds"]))
                out.append(("order|%s>%s" % (DOC_ORDER[i], DOC_ORDER[j]),
                            "documented order is ServerState, Session, AddressSpace (message_handler.rs:93-97) but %s was held "
                            "(taken at %s) while %s was taken at %s (%dx, kinds %s)" % (
                                DOC_ORDER[i], e["from_site"], DOC_ORDER[j], e["to_site"], e["count"], kinds), True))
    return out


def union_oracle(rundir, shard_reports):
    res = {"violations": [], "counters": {}, "notes": [], "inconclusive": []}
    dumps = []
    for p in sorted(glob.glob(os.path.join(rundir, "shard_*.json.locks.json"))):
        try:
            dumps.append(json.load(open(p)))
        except Exception as e:  # noqa
            res["inconclusive"].append("unreadable lock dump %s: %r" % (p, e))
    if not dumps:
        res["inconclusive"].append("no lock-order dump was written by any shard")
        return res
    edges = {}
    classes = {}
    fired_run = {}
    fired_init = set()
    threads = 0
    for d in dumps:
        r = d["run"]
        threads = max(threads, r["threads"])
        for e in r["edges"]:
            key = (e["from"], e["to"])
            kinds = set((h, k) for h, k in e["kinds"])
            pairs = set((f, t) for f, t in e.get("pairs", []))
            if key not in edges:
                edges[key] = dict(count=e["count"], from_site=e["from_site"], to_site=e["to_site"], kinds=kinds,
                                  same_instance=e["same_instance"], other_instance=e["other_instance"], pairs=pairs)
            else:
                t = edges[key]
                t["count"] += e["count"]
                t["kinds"] |= kinds
                t["pairs"] |= pairs
                t["same_instance"] += e["same_instance"]
                t["other_instance"] += e["other_instance"]
        for c, n in r["classes"].items():
            classes[c] = classes.get(c, 0) + n
        for f, l, n in r["sites"]:
            fired_run[(f, l)] = fired_run.get((f, l), 0) + n
        for f, l, n in d["init"]["sites"]:
            fired_init.add((f, l))

    # verdict on the union graph; only what no single shard already reported
    already = set()
    for rep in shard_reports:
        for v in rep.get("violations", []):
            already.add(v["signature"])
    for sig, detail, is_v in judge(edges):
        if is_v and sig not in already:
            res["violations"].append({"signature": sig, "detail": "(union of all shards) " + detail,
                                      "replay": {"class": "union of shards", "note": "rerun the whole check with the same seed"}})

    # coverage of the macro sites
    lib_src = "/repo/lib/src"
    sites = _macro_sites(lib_src)
    server_sites = [s for s in sites if not s[0].startswith("client/")]
    client_sites = [s for s in sites if s[0].startswith("client/")]
    fired_any = set(fired_run) | fired_init
    srv_run = [s for s in server_sites if s in fired_run]
    srv_any = [s for s in server_sites if s in fired_any]
    cli_any = [s for s in client_sites if s in fired_any]
    never = [s for s in server_sites if s not in fired_any]
    server_classes = [c for c in classes if not _is_client(c)]
    server_edges = [k for k in edges if not (_is_client(k[0]) or _is_client(k[1]))]
    res["counters"].update({
        "union_lock_classes": len(classes),
        "union_lock_classes_server_side": len(server_classes),
        "union_order_edges": len(edges),
        "union_order_edges_server_side": len(server_edges),
        "union_order_edges_between_distinct_classes": len([k for k in edges if k[0] != k[1]]),
        "macro_sites_server_and_core_total": len(server_sites),
        "macro_sites_server_and_core_fired_under_load": len(srv_run),
        "macro_sites_server_and_core_fired_incl_construction": len(srv_any),
        "macro_sites_client_total": len(client_sites),
        "macro_sites_client_fired": len(cli_any),
        "max_threads_in_one_shard": threads,
    })
    if not sites:
        res["inconclusive"].append("no trace_*lock! sites found under %s" % lib_src)
    res["notes"].append("server/core macro sites never reached (%d): %s" % (
        len(never), " ".join("%s:%d" % s for s in never[:60])))
    res["notes"].append("lock classes seen: " + ", ".join(sorted(classes)))
    return res


prop(
    "C38",
    title="Server locks are always taken in one global order",
    technique="runtime monitor (lockdep style): the cfg hook in the trace_*lock! macros records, per thread, an edge from every "
              "lock class held to the class being acquired, while the real server runs on loopback under concurrent real "
              "clients; the oracle looks for cycles in the class-level order graph, for re-entrant reads that a queued writer "
              "turns into a self-deadlock, and for edges against the documented ServerState -> Session -> AddressSpace order",
    rule="case = one server run per shard: ServerBuilder server (4 endpoints: None, Basic256Sha256 S&E, Basic128Rsa15 Sign, "
         "Aes128Sha256RsaOaep S&E; anonymous + user/password; clients may modify the address space; 10-50 ms timers) on a "
         "6-thread runtime; 3-4 long-lived library clients, 4-9 connecting/disconnecting library clients and 2-3 hand-driven "
         "raw connections run every service family at random (session create/activate/close incl. wrong password, from another "
         "channel, after close and after timeout; read/write; browse/browse-next with real continuation points/translate/"
         "register; add/delete nodes and references; subscriptions at 10-250 ms with data and event items, modify, "
         "set mode/triggering, publish/acknowledge, republish, transfer, delete; method calls incl. Server.GetMonitoredItems and "
         "Server.ResendData; history read/update; query; discovery services; dropped TCP streams incl. mid-request) while "
         "server-side threads write values, add/delete nodes, raise events, run polling actions and collect the metrics page. "
         "Evaluated items = distinct (held class -> acquired class, kinds) edges; distinct = the same over all shards",
    design_ref="4 C38",
    level_text="Held means: over all shards the order graph of the observed acquisitions has no cycle among distinct lock "
               "classes on which every class can block, no re-entrant read of a class that is also write-locked, and no edge "
               "against the documented order. An inversion is found once each of its two orders has been seen once, on any "
               "thread at any time; the deadlock itself does not have to happen.",
    level_note="Decides the orders the workload exercised: the evidence gives the fraction of trace_*lock! sites that fired and "
               "lists the ones never reached. Not seen at all: locks taken without the macros (server/services/view.rs:482, "
               "address_space/variable.rs:459,529 getter/setter mutexes, address_space.rs:108 diagnostics read, "
               "core/comms/secure_channel.rs:102, server.rs:438 try_read, server.rs:562, server/http). Acquisitions made while "
               "Server::new runs (single-threaded, nothing shared yet) are recorded apart and not judged. The graph is by lock "
               "CLASS: an inversion between two instances that can never be the same pair, or one always nested in a common "
               "exclusive outer lock, is still reported, because the property asks for one order; the detail names the "
               "sites so this can be told. Signatures: cycle|A>B>A (chordless cycles, rotation starting at the smallest class "
               "name), order|X>Y (edge against the documented order), and inversion|A>B|held@file for the out-of-line edge(s) of "
               "each cycle, one per source file in which the outer lock is taken, so that a new place taking two classes in an "
               "already-known wrong order is a new finding. Out of line means against SessionManager -> ServerState -> Session "
               "-> AddressSpace (the documented order with the per-connection SessionManager in front, as every site but the "
               "method-call path takes it); for a cycle through a class outside that list every edge is named. Acquisition "
               "counts never enter a verdict or a signature. The monitor keeps only the "
               "first acquisition-site pair per class edge; the harness samples and resets it about four times a second and "
               "keeps every window's pair, so a rare site pair that always fires after a common one inside every window can "
               "still be hidden. Two different instances of one class held together are recorded but not judged (instance "
               "identity is not in the log). Cycles among client-only classes are recorded only. Read/read inversions count "
               "only when the class is also write-locked somewhere in the log. Thread scheduling is not reproducible; the "
               "per-client operation sequences are (seed, shard). A stall of the server seen by the liveness probe ends the "
               "load early and is noted together with the repository frames of the blocked threads; it never decides the verdict.",
    shards={"quick": 4, "thorough": 8},
    timeout={"quick": 300, "thorough": 1200},
    min_distinct=20,
    oracle=union_oracle,
    assumptions=["parking_lot RwLock queues new readers behind a waiting writer (documented behaviour), so read-read "
                 "inversions and re-entrant reads count when the class is also write-locked somewhere"],
)
