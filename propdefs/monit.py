from props import prop

prop(
    "C23",
    title="Revised subscription and monitored item parameters respect the limits",
    technique="runtime monitor: the five inequalities asserted directly on the responses of the real CreateSubscription, "
              "ModifySubscription, CreateMonitoredItems and ModifyMonitoredItems services (entered through the cfg hooks on a "
              "real ServerState/Session/AddressSpace) for hostile requested values under several server limit configurations",
    rule="case = (limit configuration, create triple, modify triple, item requests, item modify requests). Grid: every "
         "(publishing interval, keep-alive, lifetime) of the boundary pools {0, -0, -1, 1, min-eps, min, min+eps, NaN (quiet, "
         "negative, signalling), +-inf, +-subnormal, f64::MIN/MAX, +-u32::MAX, ...} x {0,1,2,3,default,max-1,max,max+1,"
         "u32::MAX/3(+1),u32::MAX-1,u32::MAX} under each of 6 limit configurations (default; 1/1/3 with queue 1; 5/100/300; "
         "keep-alive max u32::MAX/3 with lifetime max u32::MAX; minimum sampling 0; queue maximum 0 = 'no limit'), with the "
         "sampling-interval and queue-size pools walked alongside, split across shards; then seeded random requests (thorough: also "
         "random consistent limit configurations). distinct = (configuration, class of every requested value relative to its limit)",
    design_ref="4 C23",
    level_text="Every Good response is checked for: revised publishing interval >= minimum; 1 <= keep-alive <= maximum; lifetime >= "
               "3 x keep-alive; sampling interval == -1 or >= minimum; 1 <= queue size <= maximum. NaN fails every >=, which is the "
               "intended reading of 'at least'. A panic inside a service is a violation. Held means all inequalities held on every "
               "response observed.",
    level_note="Limit configurations are written into the pub fields of the real ServerState (ServerConfig only exposes three of the "
               "six limits). Only consistent configurations are used (default keep-alive <= maximum, lifetime maximum >= 3 x "
               "keep-alive maximum); requests the server rejects are counted, not judged.",
    shards={"quick": 4, "thorough": 16},
)

prop(
    "C24",
    title="Monitored item queues keep the right values and survive resizing",
    technique="runtime monitor: VecDeque reference model of the stated queue policy compared with what the real subscription "
              "delivers, in virtual time, including ModifyMonitoredItems on non-empty queues and the overflow info bit",
    rule="case = (1-3 monitored items with queue size / discard policy / sampling mode, history of write, sampling tick, "
         "ModifyMonitoredItems and publish steps). Grid on the shards: queue size 1..10 x fill 0..size+2 x both discard policies x new "
         "size 1..10 x new policy x 0..2 later samples (one item, modify while the queue holds entries); then seeded random histories. "
         "distinct = (queue sizes, policies, overflow seen, non-empty shrink / grow seen, sampling modes)",
    design_ref="4 C24",
    level_text="Every value written is unique and increasing per variable; samples are taken by the real timer tick between publishing "
               "intervals so the item queue fills, and at each publishing interval the delivered notifications per item must equal the "
               "model queue exactly (length <= queue size, order, survivors per policy, survivors of a resize = most recent that fit). "
               "The overflow info bit must be present on a delivered entry when the model overflowed (queue size > 1) and absent when "
               "nothing was discarded. A panic or a non-Good result of ModifyMonitoredItems is a violation.",
    level_note="The queue is observed only through what is published (MonitoredItem is crate-private and the hooks expose no accessor), "
               "so a transient excess that is trimmed before the next publish would not be seen. Which entry carries the overflow bit is "
               "not checked (the property does not say).",
    shards={"quick": 4, "thorough": 16},
)

prop(
    "C25",
    title="Data change filters report exactly the changes they describe",
    technique="runtime monitor: reference predicate per trigger and deadband applied to (sample, last reported) compared with the "
              "notifications the real subscription produces sample by sample in virtual time; accepted filters must be able to report",
    rule="case = (filter: trigger x deadband type {None, Absolute, Percent, unknown} x deadband value {0, 0.5, 1, 2, 10, 1e-9, 1e300, "
         "inf, negative, NaN, ...}, value family {Double, Float, Int32, Int64, UInt64, Byte, String, Boolean, ByteString, Double array, "
         "mixed}, variable kind {stored value, getter callback}, timestamps to return {Both (half of the cases), Source, Server, "
         "Neither}, history of 20-60 samples drawn from: unchanged, within / exactly at / "
         "just beyond / far beyond the deadband, slow drift, status change, timestamp change (both, source only, server only), value "
         "absent, type switch, optional filter modify) followed by a phase of large value changes. distinct = (trigger, deadband "
         "type, deadband value class, family, variable kind, timestamps to return)",
    design_ref="4 C25",
    level_text="One sample per publishing interval; each sample is classified by the reference as must-report, must-not-report or "
               "unspecified (NaN arithmetic, which of the two timestamps the timestamp trigger means, deadband on non-scalar numerics, "
               "filters with undefined semantics) and the real outcome must agree where specified; the reported value must be the "
               "sample. Which timestamps the client asked to have returned must not change what counts as a change (for the "
               "timestamp trigger the signature of a spurious report names a non-Both choice). For every filter CreateMonitoredItems accepted whose trigger selects the value, a run of large value changes "
               "must yield at least one report after the first.",
    level_note="Part 4 names the source timestamp for StatusValueTimestamp while the code (and its unit test) compares the server "
               "timestamp; the oracle treats a change of only one of the two as unspecified. Percent deadband cannot be driven with an "
               "EURange because the server never looks one up.",
    shards={"quick": 4, "thorough": 16},
)
