from props import prop

prop(
    "C14",
    title="Security token renewal never breaks a healthy channel",
    technique="runtime monitor over an exhaustive schedule enumeration: a real client channel (SecureChannel + the client's "
              "SecureChannelState, TransportState and SendBuffer) and a real server TcpTransport (Server::new_transport(), "
              "its SecureChannelService and a MessageWriter as its writer task) joined by two FIFO queues; every interleaving "
              "of their atomic steps around one or two renewals is enumerated, each chunk is tagged with the token it was "
              "secured under, and the property text is the oracle over the recorded accept/reject verdicts; forged chunks "
              "under tokens nobody issued are offered at every distinct local state",
    rule="atomic steps: s client secures request i, r client secures a renew OPN, V server reader processes the head of its "
         "queue, W server writer secures the head of its response queue, v client event loop takes the head of its queue, "
         "a the awaiting client task installs the renew response. A case is one interleaving of these for n in-flight "
         "requests around r renewals in one (policy, mode), run from a fresh connect with real RSA/AES/HMAC. Interleavings "
         "are enumerated as (client-side order, server-side order) classes with their exact member count (lattice paths; "
         "the totals are checked against a brute-force scheduler count): quick covers (n,r) = (1,1) 56, (2,1) 4 310, "
         "(3,1) 413 086, (1,2) 277, (2,2) 61 910 interleavings; thorough adds (2,3) 189 380, (4,1) 46 132 134 and "
         "(3,2) 13 214 238, and samples 1500 classes each of (5,1) and (4,2). One seeded member of every class is executed "
         "in Basic256Sha256 and Aes128Sha256RsaOaep x Sign and SignAndEncrypt (thorough: also Aes256Sha256RsaPss, Basic256, "
         "Basic128Rsa15 for the bounds up to (2,3); the (4,1) and (3,2) classes are each run once, the four main configurations "
         "dealt out over them); (1,1) and (1,2) (thorough: (2,1) and a quarter of the (2,2) classes too) are "
         "additionally executed member by member, which also checks that members of one class show the same verdicts. "
         "Forged chunks (a token id nobody issued - next unissued, 0, far, u32::MAX - secured with the receiver's current "
         "keys; keys from unrelated nonces; keys from one nonce used twice) are offered after every distinct local history "
         "of either side for (1,1), (2,1), (1,2) (thorough: (2,2), (3,1) too). "
         "distinct = (policy, mode, n, r, client order, server order) classes plus probe points",
    design_ref="4 C14",
    level_text="Every delivered chunk is recorded with (interleaving, chunk, token in its security header, receiver token, "
               "newest token the receiver had already received, verdict). Held means: in every explored interleaving every "
               "chunk secured by the real sender was accepted unless the receiver had already received a message under a "
               "later token, every renew exchange completed, and every forged chunk was rejected. Exhaustive within the "
               "stated bounds at the granularity of the six atomic steps.",
    level_note="The bound is the reach: at most 3 (thorough 4) in-flight requests around 1 renewal, 2 (3) around 2, 2 around 3; "
               "single-chunk requests and responses; no token expiry (no time passes). A client step that builds a chunk "
               "header and secures it is atomic here; in the client the two happen on consecutive polls. Only one seeded "
               "member per class is executed for the large bounds; the equivalence of members is an argument (the sides share "
               "only the two FIFO queues) that the member-by-member runs of the small bounds test.",
    shards={"quick": 16, "thorough": 16},
    timeout={"quick": 600, "thorough": 3600},
    exhaustive={"quick": True, "thorough": True},
)
