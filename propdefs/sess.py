from props import prop

prop(
    "C19",
    title="Only activated sessions on their own channel can use services",
    technique="runtime monitor: reference model per authentication token {owner connection, bound channel, activated, "
              "closed, timed out} run alongside request histories on several real TcpTransports of one Server "
              "(HEL/OPN as real frames, MSG through the real MessageHandler); state digest compared around every "
              "request that got a ServiceFault",
    rule="case = one history of up to 40 (thorough 60) operations over 1-3 connections of the same server: "
         "CreateSession (timeouts 60000, 10000, 1e9, 30000.5, 12000, 0, -1, NaN, 1), ActivateSession with good and bad "
         "credentials and with the issued / null / forged / mutated token, CloseSession likewise, OPN Issue (new secure "
         "channel id) and Renew, session timeout elapsed (last-request time moved back just beyond or well within the "
         "revised timeout through the public setter), discovery requests, and the gated services read, write, browse, "
         "createsubscription, addnodes, deletenodes, publish, translatebrowsepaths, call, createmonitoreditems, "
         "deletesubscriptions with the session's, a null, a forged or a mutated (last/first byte flipped, truncated, "
         "extended, other namespace, empty, numeric) token. 24 attack shapes (other connection, stale channel, renewed "
         "channel, not activated, refused activation, closed, timed out, transferred, null token after close, ...) are "
         "enumerated for each of the 11 services on every run; the rest are seeded random. One evaluation = one gated "
         "request judged; distinct = (service, token kind, model situation, preceding operation kind)",
    design_ref="4 C19",
    level_text="Every gated request of every history is judged against the reference model: a response other than "
               "ServiceFault (or a queued publish request) when the model forbids the request is a violation, as is any "
               "change of the observable state (test variable value, existence of the nodes AddNodes/DeleteNodes aim "
               "at, per session: token, activated flag, channel id, subscription, publish-queue, retransmission and "
               "continuation-point counts, session count of every connection) across a request answered with a "
               "ServiceFault, an ActivateSession/CloseSession answered Good for a token whose CloseSession was answered "
               "Good before, or for a token the server never issued. The model follows the responses of the session "
               "services, which the property exempts (a successful ActivateSession from another connection moves the "
               "session there, as Part 4 allows). Held means: none of that on the explored histories.",
    level_note="Reach: histories up to the stated length on a None/None endpoint with the anonymous and one user-name "
               "token; timeouts are driven through Session::set_last_service_request_timestamp (25 ms beyond / 5 s "
               "within the revised timeout), never by sleeping, and the comparison inside the server still reads the "
               "wall clock. MSG requests enter at TcpTransport::process_message (verif_handle_message), so chunk-level "
               "crypto is not part of this check. Only the one direction the property states is judged: a refused "
               "request that the model would allow is counted (model_permits_but_faulted), and a refusal of a plain "
               "service on a freshly activated, untouched session makes the run inconclusive rather than violated. "
               "Panics inside services the session was entitled to call are noted, not judged (C33's business). "
               "Trusted: the ~40 line model in harness/crates/sess/src/p_c19.rs (model_verdict and the session-service "
               "transitions in run_history).",
    shards={"quick": 8, "thorough": 16},
    timeout={"quick": 600, "thorough": 3600},
    min_distinct=50,
)

prop(
    "C20",
    title="Session activation authenticates the user exactly as configured",
    technique="runtime monitor: reference function over a universe of endpoint / user-token configurations evaluated "
              "next to the real ActivateSession of sessions created through real transports (real OPN per channel "
              "security, real RSA encrypted passwords and X.509 user-token signatures), on a server with and on a "
              "server without an application instance certificate / private key",
    rule="universe = 7 user-token sets (anonymous only; three password users, one with an empty password and one with a "
         "non-ASCII password; anonymous + one user; one X.509 user; everything; nothing; a user and a certificate that "
         "other endpoints do not list) x 3 password security policies (unset, Basic128Rsa15, Basic256Sha256) x 5 channel "
         "securities (None, Basic128Rsa15/Sign, Basic256Sha256/SignAndEncrypt, Aes128Sha256RsaOaep/Sign, "
         "Aes256Sha256RsaPss/SignAndEncrypt) = 105 endpoints of one server, plus a second server with the same users "
         "whose PKI directory is empty (server_certificate and server_pkey are None) hosting 5 of the sets (anonymous "
         "only, three password users, anonymous + one user, everything, nothing) x 3 password policies on None/None = 15 "
         "endpoints; encrypted passwords sent to it are encrypted for a certificate whose key it does not hold. "
         "Per endpoint the grid holds: anonymous tokens "
         "with 7 policy ids (incl. the null token), 5 undecodable/foreign tokens, for 11 user names (configured, "
         "configured elsewhere, X.509 users' names, unknown, case and blank variants, empty, null) the canonical token "
         "and one field wrong at a time (7 passwords, 9 encodings: canonical/plain/null/empty-alg/unknown-alg/alg-but-plain/"
         "RSA-1_5/OAEP/OAEP-SHA256, 7 policy ids, 7 nonces: current/empty/random/last or first byte flipped/truncated/"
         "extended), X.509 tokens over 6 certificates x own/other key, 11 signature variants, 5 policy ids, the same "
         "tokens against an already activated session with the current and the previous nonce, a correct activation "
         "after a refused one, and activate - replay first - activate - replay first - replay previous for three users x "
         "four encodings (the server without a certificate gets the canonical X.509 tokens only). Quick runs the core shapes in full and a seeded quarter of the rest plus seeded random "
         "multi-step cases; thorough runs the whole grid. One evaluation = one ActivateSession judged; distinct = "
         "(token kind, endpoint, step, field values)",
    design_ref="4 C20",
    level_text="For every ActivateSession the reference function over the universe tables says deny, allow or either. "
               "Deny (anonymous where not listed, user not listed for the endpoint, password that matches under no "
               "reading, password encrypted for another nonce than the session's current one or replayed after an "
               "activation, any RSA-encrypted password on the server without a private key, certificate not listed / "
               "unusable, token signature by another key, damaged, or over other "
               "data than server certificate + current nonce) answered Good is a violation, as is a panic inside "
               "ActivateSession. Allow is claimed only for "
               "tokens built exactly as the repository's own client builds them (policy from the endpoint description the "
               "server returned, make_user_name_identity_token / create_signature_data, current nonce) with the right "
               "credentials; a ServiceFault for those is a violation with its own signature class "
               "(valid-activation-refused). Everything the property does not decide (odd policy id with right "
               "credentials, plain password where an encrypted one was advertised, other signature algorithm) is either. "
               "Held means: no disagreement on the explored cases.",
    level_note="Trusted: the reference function (build() in harness/crates/sess/src/p_c20.rs, ~80 lines of table "
               "lookups) and the universe tables. Status codes of refusals are recorded, not judged. Configurations are "
               "restricted to what ServerConfig::is_valid accepts, so a password user without any password entry does "
               "not occur; two users with the same name are not generated. The client signature of ActivateSession on "
               "secured channels is always correct. X.509 tokens on a None channel are judged for wrongful acceptance "
               "only while the session nonce is empty (the repository's client cannot sign an empty nonce). On the server "
               "without a certificate no X.509 token is ever required to be accepted (there is nothing its signature could "
               "be made over); refusals required there are the same as elsewhere.",
    shards={"quick": 16, "thorough": 16},
    timeout={"quick": 900, "thorough": 5400},
    min_distinct=500,
)
