from props import prop

_ENGINE = ("A real Server / ServerState / AddressSpace (ServerBuilder) and a real Session per case are driven through the "
           "cfg hooks (create_subscription, create_monitored_items, async_publish, session_tick_subscriptions, "
           "session_expire_stale_publish_requests, republish ...) in virtual time: every `now` comes from the case, "
           "the virtual epoch is 2100-01-01 so the wall clock stamped into new objects by the server never matters. "
           "No sockets, no sleeping.")

prop(
    "C21",
    title="Publish responses pair with requests and deliver every data change once",
    technique="runtime monitor: in-process history oracle (request FIFO, per-subscription sequence numbers, per-item "
              "owed-value lists with unique increasing payloads) over generated op histories on the real subscription "
              "engine in virtual time; violating histories are shrunk by op deletion",
    rule="case = a history of ops [create/delete subscription, create/delete item, write, timer(+dt), publish(ack mode), "
         "publish-until-full, set publishing mode, set monitoring mode] over <=4 subscriptions x <=5 items x 12 variables "
         "(item shape: sampled at 100 ms with a large queue {no filter, DataChangeFilter trigger StatusValue, trigger "
         "StatusValueTimestamp; no deadband}, publishing-interval sampled, small queue discard oldest / newest; timestamps to "
         "return Neither / Source / Server / Both), 30-200 ops, followed by a drain phase (publish requests + interval ticks until only keep-alives come back). Half "
         "of the histories keep a full set of publish requests queued before every timer tick (verdict independent of "
         "the late state), a quarter feed randomly, a quarter in bursts; 5 scripted minimal histories on shard 0 "
         "(one of them: every filter x timestamps-to-return shape on one variable, two writes, then cycles without a write). "
         "distinct = (feed mode, simple?, buckets of the number of subscription / item creations, filtered items and deletions, "
         "set of timestamps-to-return values used, "
         "publishing-mode and monitoring-mode changes, length bucket)",
    design_ref="4 C21",
    level_text="Every response taken from the session is matched against the FIFO of queued requests (request id and "
               "request handle, oldest first; BadTimeout faults exempt from the order), sequence numbers per "
               "subscription must strictly increase over notification messages, and every delivered value must be the "
               "next owed sample of its item (a value coming again in a later cycle is a duplicate; for items with a data "
               "change filter the signature names trigger and timestamps to return); after the drain phase no value sampled at a timer tick of a reporting "
               "item (queue 4096, sampling 100 ms = clock step) of a live, enabled subscription may be undelivered. "
               "Held means no such event and no panic on the explored histories. " + _ENGINE,
    level_note="Sound by construction: initial values, values only seen by a publish-triggered tick, values of "
               "small-queue or publishing-interval-sampled items (except the latest), and anything pending across item / "
               "subscription deletion, publishing-mode or monitoring-mode changes are optional. Every write stores a new "
               "value with new source and server timestamps and nothing else touches a variable, so a deadband-less filter "
               "with trigger StatusValue or StatusValueTimestamp selects exactly the writes and such items are judged like "
               "unfiltered ones (trigger Status and deadbands belong to C25). Not covered: events, "
               "triggering links, ModifyMonitoredItems / ModifySubscription, sequence number wrap-around, "
               "max_notifications_per_publish. Lifetime count is 3000 so expiry (C22) never interferes.",
    shards={"quick": 4, "thorough": 16},
    timeout={"quick": 600, "thorough": 3600},
)

prop(
    "C22",
    title="Keep-alives keep flowing and idle subscriptions expire on time",
    technique="runtime monitor: timing oracle in publishing intervals over the real subscription state machine in virtual "
              "time; exhaustive grid over keep-alive / lifetime counts plus seeded fed/starved stretches",
    rule="grid: keep-alive count K 1..8 x lifetime count L in {3, 3K, 3K+1, 3K+2, 30} (thorough: every third value up to 30) "
         "x publishing enabled/disabled x {no item, static item, item changing every tick} x (interval, tick step) in "
         "{(100,100), (200,100), (1000,1000)} for family 'fed' (requests always queued, 10*(K+1)+3 intervals) and family "
         "'starve' (N intervals without requests, N in {L-3..L+2, L+5}, then requests); plus seeded 'mixed' histories of "
         "6-11 alternating fed / starved stretches; family 'paced': one publish request every P intervals sent just after "
         "a timer tick (grid P in {1, 2, 3, K+1, L/2, L-2, L+3} x first request {at creation, 1 interval, P intervals after "
         "creation: the subscription is then already late, every request is consumed on arrival and no timer tick ever finds "
         "one queued} over 3L+2P+4 intervals, plus seeded ones with gaps steady / alternating P, P-1 / random in 1..P). "
         "distinct = (family, K, L relative to 3K, interval, step, enabled, item kind, N-L; paced: P or P-L, first request at "
         "creation or when late, jitter)",
    design_ref="4 C22",
    level_text="fed + enabled + no data: first message by 2 intervals, every gap between messages <= (K+1) intervals, run "
               "of 10*(K+1) intervals; any BadTimeout status change while a request was queued at every tick is a "
               "violation (enabled or not). starve: BadTimeout status change must not be delivered for N <= L-2 and must "
               "be for N >= L+1. mixed: expiry at most L-3 intervals after the previous publish response is premature, "
               "no expiry after L+2 request-less intervals is overdue, keep-alive gaps judged inside fed stretches. An "
               "interval is request-less only if no request was queued at its timer tick and none arrived (and was answered "
               "on arrival, late state) during it. paced: same verdicts, so with P <= L-2 the subscription must never expire "
               "over the whole run and with P >= L+3 it must; the signature says whether every request was consumed on "
               "arrival or some waited for the timer. Any "
               "panic is a violation. The unbounded 'keeps flowing' is shown for the run length only. " + _ENGINE,
    level_note="One subscription per session so that 'a request is available' is observable. N = L-1 and N = L are not "
               "judged (the statement allows one interval either way). Keep-alive gaps are not judged with publishing "
               "disabled (the statement conditions them on publishing enabled) but expiry is. ModifySubscription and "
               "SetPublishingMode during a run are not exercised.",
    shards={"quick": 4, "thorough": 16},
    exhaustive={"quick": False, "thorough": False},
)

prop(
    "C26",
    title="Client timestamps and wall-clock jumps cannot crash subscription processing",
    technique="runtime monitor: panic capture plus a timeout oracle over hostile request-header timestamps, timeout hints "
              "and non-monotonic tick times on the real subscription engine; violating histories shrunk by op deletion",
    rule="case = a history of ops [create subscription (with item sampled at 100 ms / 500 ms / publishing interval, or "
         "none), publish(now, timestamp kind, offset, timeout hint), expiry pass(now), expiry+timer(now), timer(now), "
         "write]. Families: 'expire' (hostile timestamps: null, 1970, 1700, end of time, 2200, now+-{1ms,1h,29999,30001,50y}; "
         "hints {0,1,100,5000,29999,30000,30001,60000,u32::MAX}; monotonic clock), 'ticks' (timer ticks at times that "
         "jump forwards up to years and backwards 1 ms..20 years, no items), 'arrival' (a publish request arrives at an "
         "earlier server time with items present), 'mixed'. Scripted boundary grid on shard 0 (6 timestamp kinds x 6 hints "
         "x expiry passes at 0,1,2,29999,30000,30001,60000 ms). distinct = (family, number of backward steps, timestamp "
         "kinds, hint classes, item kinds)",
    design_ref="4 C26",
    level_text="Every call is made under catch_unwind; a panic anywhere in repository code is a violation (signature = "
               "file + message). Every ServiceFault BadTimeout is attributed to the expiry pass that produced it and "
               "must satisfy (pass time - request timestamp) >= timeout, timeout = hint if 0 < hint < 30000 else the "
               "session's 30000 ms. Held means neither on the explored histories. " + _ENGINE,
    level_note="'Its timeout' is read as min(timeoutHint, the session's publish request timeout of 30 s); requests with a "
               "larger hint that time out at 30 s are counted (timed_out_at_server_cap_before_larger_hint), not flagged. "
               "Tick times stay within 2080..2300 and request timestamps within 1601..9999; chrono's own extremes are "
               "not used as server time. Liveness (a stale request is eventually answered) is not checked.",
    shards={"quick": 4, "thorough": 16},
)

prop(
    "C27",
    title="Higher-priority subscriptions are served first",
    technique="runtime monitor: order oracle over the publish responses of one deciding timer tick with fewer queued "
              "requests than subscriptions holding notifications, on the real subscription engine",
    rule="case = (2..8 subscriptions with distinct priorities from boundary-heavy pools {0,1,2,126..129,253..255} or "
         "random, creation order ascending / descending / shuffled in priority; subset R (>=2) that gets new data; k < |R| "
         "queued publish requests; interval 100/200/500 ms). Warm-up delivers every initial value, then one interval tick "
         "decides; afterwards the remaining requests arrive one at a time (stage 2, judged on data responses only). 4 "
         "scripted minimal cases on shard 0. distinct = (n, |R|, k, creation order vs priority, 0/255 present, interval)",
    design_ref="4 C27",
    level_text="At the deciding tick exactly k data responses must appear and they must be for the k highest priorities "
               "of R in descending priority order; in stage 2 a data response for a subscription while a higher-priority "
               "one still holds its notification is a violation. Held means no inversion on the explored cases. " + _ENGINE,
    level_note="The deciding tick does not depend on what happens to the notifications of the subscriptions that were not "
               "served. Stage 2 only produces judgments when those notifications are kept (it is inert while they are "
               "dropped, see C21); equal priorities and different publishing intervals are not exercised.",
    shards={"quick": 4, "thorough": 16},
)

prop(
    "C40",
    title="Republish and acknowledgement see the same retained notifications",
    technique="runtime monitor: shadow model of the retained (sent, unacknowledged) notification set, compared with "
              "Republish after every op of generated publish / acknowledge / republish / delete histories on the real "
              "subscription engine; violating histories shrunk by op deletion",
    rule="case = a history of ops [write, feed+interval tick, publish with acknowledgements (one member, several members, "
         "already acknowledged, never sent {0, 1e6+x, u32::MAX}, unknown subscription, member twice with an unknown one in "
         "between, unknown then member), fill the publish request queue to the server's limit (one acknowledgement request in "
         "six follows a fill and is therefore rejected with BadTooManyPublishRequests; requests also pile up to the limit on "
         "their own), republish probe (never sent, 0, unknown subscription), create subscription, delete "
         "subscription], 20-160 ops, 1..3 subscriptions, acknowledgement rate 10/40/70/95 %; 3 scripted histories on shard "
         "0 (every acknowledgement kind; every kind first against a full queue, then admitted; past the ceiling without "
         "acknowledging). distinct = (ack rate, queue fills, subscription "
         "creations / deletions, set of acknowledgement kinds used, republish probes, length bucket)",
    design_ref="4 C40",
    level_text="After every op every shadow member is re-requested: it must come back equal to the original message; a "
               "member whose acknowledgement was answered Good must answer BadMessageNotAvailable from then on; an "
               "acknowledgement of a number that is not retained must be answered BadSequenceNumberUnknown and leave all "
               "other members retrievable; an acknowledgement of a member that was just republished must be answered Good; "
               "a publish request answered with a service fault (queue full) reports no acknowledgement result, so every "
               "member it names stays a member (republished identical after the op) and its next acknowledgement in an "
               "admitted request must be answered Good; "
               "un-acknowledged disappearance is tolerated only if the retained count exceeded four per subscription "
               "since the member was last seen. Held means none of these on the explored histories. " + _ENGINE,
    level_note="The eviction ceiling (2 x the publish request limit = 4 per live subscription) is the server's own constant; "
               "which members are evicted at the ceiling is not judged. Keep-alive messages may or may not be retained. "
               "Publish requests are always available so the histories never depend on the late state. A rejection is only "
               "accepted as such (BadTooManyPublishRequests) when the queue held two requests per subscription before the "
               "request; any other fault of an acknowledgement request makes the case inconclusive.",
    shards={"quick": 4, "thorough": 16},
)
