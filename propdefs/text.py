from props import prop

prop(
    "C04",
    title="Textual identifiers parse back to the value they were printed from",
    technique="runtime monitor: exact print-then-parse round-trip oracle over described NodeId / ExpandedNodeId / Guid / "
              "NumericRange / DateTime values with witness shrinking, plus panic capture on every parser for arbitrary, "
              "near-miss and exhaustively enumerated short strings",
    rule="round trip: value described in JSON -> real Display / as_string -> real FromStr -> == (DateTime: equal at the "
         "printed precision). Fixed grid (namespaces {0,1,2,9,10,99,100,255,256,65534,65535} x 15 identifier shapes x "
         "server index x URI, range and tick boundaries) split over the shards, the rest seeded random: all four "
         "identifier kinds, strings over an alphabet with ; = % newline control and non-ASCII characters, URIs over "
         "{% ; 3 b 2 5}, ExpandedNodeIds with a URI only with namespace index 0, NumericRanges with 2..10 dimensions. "
         "parse half: 8 parsers (NodeId, ExpandedNodeId, Identifier, Guid, NumericRange, DateTime::from_str, "
         "DateTime::parse_from_rfc3339, Variant::cast from String) x (hostile literals, every string of <= 3 characters "
         "over a 12 character alphabet with 1-4 byte characters, arbitrary strings, valid prints with 1-2 edits). "
         "distinct = (half, type, namespace class, identifier kind and character classes, URI / server index class) "
         "or (parser, origin, character classes, accepted?)",
    design_ref="4 C04",
    level_text="Every generated value is printed and parsed with the real code and compared with ==; every string is "
               "given to every parser under catch_unwind. A failing value is shrunk (identifier, namespace, URI, server "
               "index, characters) and the signature names what could not be shrunk away. Held = no mismatch, no "
               "rejection of an own print and no panic on what was explored. While the simplest value of a type fails "
               "(e.g. ExpandedNodeId ns=0, no URI) shrinking converges on it, so a second defect of the same failure "
               "kind in that type only shows once the first is fixed.",
    level_note="Not generated because the text form cannot carry them: empty / null string and byte-string identifiers, "
               "an ExpandedNodeId with both a URI and a non-zero namespace index, an empty (non-null) namespace URI, "
               "MultipleRanges with fewer than 2 or more than 10 parts. DateTime values above 9999-12-31T23:59:59 are "
               "not in range.",
    shards={"quick": 4, "thorough": 16},
    timeout={"quick": 600, "thorough": 1800},
)

prop(
    "C05",
    title="Relative path strings round-trip and parse safely",
    technique="runtime monitor: exact print-then-parse round-trip oracle over described RelativePath values with witness "
              "shrinking, plus panic capture on the parser for arbitrary, near-miss and exhaustively enumerated strings",
    rule="round trip: path described in JSON -> String::from(&RelativePath) -> RelativePath::from_str with the default "
         "resolvers -> ==. Elements: reference type from the 27 standard types or a string identifier in any namespace "
         "(what the default browse-name resolver can print), inverse / subtype flags, target namespace over "
         "{0, 1-9, 9/10/11/99/100/999/1000/65535, random}, names over & / . < > : # ! digits space non-ASCII (rarely line "
         "breaks), null target names, 0..32 elements with emphasis on 1, 31 and 32. Fixed grid (12 reference shapes x 7 "
         "namespaces x 15 names; lengths 0,1,2,31,32) split over the shards. parse half: hostile literals, every string "
         "of <= 4 characters over {/ . < > # ! & : 1 a e-acute}, arbitrary strings, long inputs, valid prints with 1-2 "
         "edits. distinct = (element count class, set of element classes = reference form, flags, namespace class, "
         "name character classes) or (origin, character classes, accepted with n elements?)",
    design_ref="4 C05",
    level_text="Every generated path is printed and parsed with the real code and compared with ==; every string is "
               "parsed under catch_unwind. A failing path is shrunk (elements dropped, reference type, flags, namespace "
               "and names simplified) and the signature is the minimal path. Held = no mismatch, no rejection of an "
               "own print and no panic on what was explored.",
    level_note="Not generated because the text form cannot carry them: reference types the default resolver cannot name "
               "(numeric ids other than the 27 standard ones, guid / opaque ids), a namespace-0 string id that spells a "
               "standard type, a null target name with a non-zero namespace, empty (non-null) names, elements: None, "
               "and segments above the parser's deliberate 256 byte limit.",
    shards={"quick": 4, "thorough": 16},
)

prop(
    "C06",
    title="Implicit Variant conversion never changes a numeric value",
    technique="runtime monitor: exact-arithmetic reference oracle (i128, exact float decomposition, integer bit algorithm "
              "for nearest representable float) over Variant::convert, Variant::cast and the event-filter "
              "operator::convert (cfg hook), on a full boundary grid plus seeded random values",
    rule="case = (operation, source type and value, target type) for all 10x10 numeric type pairs, or a pair of operands "
         "for operator::convert. Grid (enumerated on every run, split over the shards): every integer type's MIN, MIN+1, "
         "-2..2, MAX-1, MAX, every other type's bounds +-2, 2^k +-3 and the first f32 / f64 ties above 2^k for k in "
         "{23,24,25,31,32,52,53,54,62,63}; floats: NaN, +-inf, +-0, +-0.5, +-1.5, +-2.5, 0.49999999999999994, every integer "
         "bound + {-2..2 in steps incl. +-0.25, +-0.5, +-0.75, 0.4999, 0.5001} and both float neighbours, 2^k +- {0,0.5,1,2,3}. "
         "Random: near-bound, random bit length, random bits, integer plus fraction. "
         "distinct = (operation, source type, target type, relation of the value to the target: in range / below / above / "
         "just outside / far outside, sign, fraction <,=,> 0.5, beyond the float's integer precision)",
    design_ref="4 C06",
    level_text="convert: a non-empty result must have the target type and denote the same number (exactly for integer "
               "targets; one of the nearest representable values for float targets). cast to an integer type: the result "
               "must be a nearest integer (ties either way) when that is in range and empty exactly when it is not; NaN "
               "and infinities must give no result. operator::convert: each operand is either kept, dropped, or converted "
               "to a value denoting the same number. Panics are violations.",
    level_note="Trusted: the reference in harness/crates/text/src/c06.rs (about 120 lines). Explicit casts to Float / Double "
               "are outside the property and only checked for panics (and as implicit conversions when the implicit table "
               "offers them). Boolean, String and StatusCode sources are not numeric and are not judged.",
    shards={"quick": 4, "thorough": 16},
)

prop(
    "C41",
    title="Saved configurations load back unchanged",
    technique="runtime monitor: save / load round-trip oracle (== and is_valid) over generated ServerConfig and ClientConfig "
              "values through the real Config::save and Config::load on files under work/scratch, with witness shrinking",
    rule="configuration described as JSON and built into the real struct without going through its serde derive "
         "(ServerConfig field by field, ClientConfig through the public ClientBuilder setters), kept only if its own "
         "is_valid() holds. Grid: each of 128 YAML-significant strings (indicators : # - ' \" { } [ ] , & * ! | > % @ `, "
         "null / bool / number / date look-alikes, leading / trailing spaces, line breaks and block-scalar shapes, tabs, CR, "
         "control characters, NEL / LS / PS / BOM, non-ASCII) in a plain string field, a PathBuf, an Option, list elements "
         "and as endpoint / user-token map keys with their references; usize and Duration extremes; f64 specials. Random: "
         "0-3 user tokens, 0-4 endpoints with consistent ids, every string slot drawn from the special strings, glued "
         "pairs, an indicator alphabet, long folded text; limits over 0, 1, u32 / i64 / u64 extremes. "
         "distinct = (client / server, slot, endpoint and token counts, set of special-character classes present)",
    design_ref="4 C41",
    level_text="Each valid configuration is written with Config::save, read with Config::load, compared with == and "
               "re-validated. A failing configuration is shrunk towards the simplest valid one (sub-trees reset, entries "
               "dropped, strings shortened consistently in keys and references); the signature names the field that "
               "differs and the remaining special string.",
    level_note="Not generated: NaN limits (== is false for NaN by definition), non-UTF-8 paths (serde refuses them before "
               "YAML is involved), a cached X509 thumbprint in a user token (runtime state, #[serde(skip)]).",
    shards={"quick": 4, "thorough": 16},
)

prop(
    "C42",
    title="JSON encoding of built-in types round-trips",
    technique="runtime monitor: exact serialise / deserialise round-trip oracle through serde_json::Value and through JSON "
              "text over generated values of every JSON-serialisable built-in type, with a structural diff naming the "
              "first field that differs",
    rule="types: UAString, ByteString, Guid, DateTime, NodeId, ExpandedNodeId, StatusCode, LocalizedText, QualifiedName, "
         "DataValue, Variant (every scalar type incl. XmlElement, ExtensionObject, DiagnosticInfo, nested Variant and "
         "DataValue, and arrays). Grid: null / empty / text for every string-like part, integer and float extremes, NaN and "
         "infinities, every identifier kind with and without namespace, ExpandedNodeId with and without URI and server "
         "index, DataValue field combinations. Random: seeded values of each type, half of them Variants and DataValues. "
         "DateTimes at millisecond precision inside [1601, 9999], NodeId identifiers non-empty, ExpandedNodeIds with a URI "
         "only with namespace index 0. distinct = (type, shape: null / empty / text, identifier kind, URI?, float class, "
         "nested variant type)",
    design_ref="4 C42",
    level_text="to_value then from_value, and to_string then from_str, must both give back a value equal to the original "
               "(== ; NaN equals NaN). Refuted by a difference, by the type rejecting its own output, or by a panic while "
               "serialising. The signature is the failure kind plus the path to the first differing field.",
    level_note="Not generated: DiagnosticInfo.additional_info = Some(null string) (JSON null is the absent field). "
               "NaN payloads and the sign of a NaN are not compared (Part 6 writes every NaN as \"NaN\").",
    shards={"quick": 4, "thorough": 16},
)
