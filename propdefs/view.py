from props import prop

prop(
    "C30",
    title="Browsing in pages returns the full result exactly once",
    technique="runtime monitor: exact oracle (one unlimited Browse through the real ViewService is the reference list) plus "
              "a reference model of the continuation-point life cycle over recorded Browse / BrowseNext / release / "
              "node-management histories on a real Server, Session and AddressSpace (ServerBuilder, standard node set "
              "plus generated hubs)",
    rule="part A: case = (one to six BrowseDescriptions in one request, page size). Nodes: generated hubs with 0..520 "
         "references of nine reference types to targets of mixed node class (some dangling, some doubly referenced) and "
         "inverse references, plus standard nodes, a missing node and the null id; direction {forward, inverse, both, "
         "invalid}; reference type filter {none, 13 standard types abstract and concrete, a non-reference-type node, an "
         "unknown id} with and without subtypes; node class masks; result masks. The grid (hubs up to 30 references, "
         "every page size 1..L+1, 3 directions, 7 filters, subtypes, 2-4 class masks) is enumerated and split over the "
         "shards; the rest is seeded random with page sizes from {1,2,3,L-1,L,L+1,L/2,254..257,1000,u32::MAX,random}. "
         "part B: case = history of 6..36 steps over several continuation points of one session: Browse (1..30 nodes "
         "per request), BrowseNext of a live / used / released / stale / repeated point, several points in one "
         "request, release, and AddNodes / AddReferences / DeleteNodes / DeleteReferences answered Good; shapes: free "
         "mix, overflow (more points than the announced maximum), edit-heavy, reuse-heavy, and four directed minimal "
         "histories (Browse, one edit of each kind, BrowseNext). distinct = (direction, filter, subtypes, mask kinds, "
         "length bucket, relation of page size to length, nodes per request, capped) for A and the set of event kinds "
         "in order of first occurrence for B",
    design_ref="4 C30",
    level_text="A: the concatenation of the pages must equal the unlimited list (same order, no duplicate, none missing), "
               "no page may exceed the requested size, paging must end. B: a live point must continue with exactly the "
               "next page; a used, released or stale (any Good node-management request in between) point must be "
               "refused; the number of points the session stores (read through the hook) must never exceed the "
               "server's announced MaxBrowseContinuationPoints. Held = none of these on the explored cases.",
    level_note="A live point may be refused only against an eviction budget that grows when the store was at its bound "
               "(whichever point the server drops). The reference list comes from the same service, so a defect "
               "common to paged and unpaged browsing is invisible. Trusted: the 150-line life-cycle model in "
               "harness/crates/view/src/c30.rs.",
    shards={"quick": 4, "thorough": 16},
    timeout={"quick": 600, "thorough": 3600},
)

prop(
    "C32",
    title="Attribute reads and writes obey access rights and never crash",
    technique="runtime monitor: shadow map of expected variable values over histories of Write and Read (with and "
              "without index ranges) through the real AttributeService, reference functions for access and data type "
              "compatibility, panic capture; plus an enumerated attribute x node class x index range grid",
    rule="about 130 generated variables: a scalar of every built-in type, ASCII / 2-,3-,4-byte UTF-8 / empty / null "
         "strings, byte strings, arrays (0,1,5,40 elements; Double with NaN; String with null; Byte with rank 1 and -2; "
         "2x3), abstract data types (Number, Integer, UInteger, BaseDataType), an Empty value, and the 4x4 grid of user "
         "access level x access level on three shapes, history bits, variables whose AccessLevel attributes are "
         "writable; plus one node of every class with and without write mask. History = 8..32 operations: Write of "
         "Value (matching / other type, scalar for array and reverse, Empty, ByteString, multi-dimensional, arbitrary "
         "Variant; 1..5 items per request; DataValue with or without value, status, timestamps), Write with an index "
         "range from a grammar (in range, at and past the end, leading zeros, u32 limits) plus junk, Read of Value with "
         "such ranges / data encodings / max age / timestamps, Read and Write of every attribute id 1..27 and invalid "
         "ids on every node class, and writes of AccessLevel / UserAccessLevel that the model follows. Every history "
         "starts from the initial values. The grid (31 attribute ids x 27 nodes x 6 ranges, Read and Write) is "
         "enumerated on shard 0. distinct = (operation, value shape, data type, value kind, range kind, writable?, "
         "status)",
    design_ref="4 C32",
    level_text="Refuted by: Good for a write when the user access level lacks CurrentWrite; Good for a value whose "
               "built-in type is not the variable's data type or a subtype of it; a Good write that the stored value "
               "and a following Read do not show (index-range writes element by element); a rejected write after "
               "which the value differs; a Read with an in-bounds index range on an array, ASCII string or byte "
               "string that is refused or returns other elements than the shadow; a wrong number of results; a panic. "
               "Inconclusive if no plain write, no range write or no range read was accepted.",
    level_note="Not judged: value rank (the server accepts an array for a scalar variable and the reverse; counted as "
               "note_value_rank_mismatch_accepted), rejected writes of compatible values, index ranges on non-ASCII "
               "strings and multi-dimensional arrays beyond 'answers without panic', attributes other than Value "
               "beyond 'answers without panic'. Trusted: the type table and range parser in harness/crates/view/src/c32.rs.",
    shards={"quick": 4, "thorough": 16},
    timeout={"quick": 600, "thorough": 3600},
)

prop(
    "C33",
    title="No well-formed request from an authenticated client crashes the server",
    technique="runtime monitor: structure-aware random request sequences of all 36 services through the real "
              "MessageHandler (TcpTransport::verif_handle_message) on a session created and activated through it, "
              "followed by subscription ticks in virtual time; panic capture per request, process-level observation "
              "(signal, per-call watchdog) of batches run in child processes, liveness probe after every sequence",
    rule="sequence = CreateSession + ActivateSession, 3..12 requests, 2..9 virtual-time ticks (with value changes, "
         "raised events and publish requests with acknowledgements in between), a Read of Server_ServerStatus_State, "
         "CloseSession. Requests are hand-built per service from what the client learned (node ids of every class and "
         "identifier kind, subscription / monitored item ids, continuation points, added nodes, sequence numbers) mixed "
         "with boundary and junk values: node management with arbitrary ids, namespaces, browse names, attribute "
         "structures of every class with arbitrary masks, self references, references inside the type hierarchies; "
         "monitored items with DataChange / Event / Aggregate / undecodable filters, where clauses with every operator, "
         "missing, surplus, self-referring and out-of-range operands; method calls; history details of every kind; or "
         "(one in six) decoded by the real decoder of the request structure from a biased byte source. Every eleventh "
         "sequence starts with one of 13 directed two- or three-request combinations. One server per child process, "
         "rebuilt after a panic. distinct = (service, generator, response type or fault status)",
    design_ref="4 C33",
    level_text="Refuted by: a panic inside handle_message or a tick (signature = file and message of the panic), a child "
               "process killed by a signal while a request is in flight (stack overflow, abort), a call into the server "
               "that does not return, a request that gets neither response nor fault, or a probe Read that is not "
               "answered Good afterwards (BadNodeIdUnknown is accepted when the client deleted the node). A crash or "
               "hang is attributed to a reference cycle the client built (HasSubtype among reference types or data "
               "types, aggregation) when the harness finds one with the server's own exact-type lookup.",
    level_note="The hang verdict is the only one that rests on wall clock: a call that has not returned after 5 s (a "
               "normal call takes under 10 ms), confirmed in a second process with 15 s; a call that returns in that second process was merely slow "
               "(loaded machine): it is counted (slow_calls_that_returned_on_the_rerun) and noted, not a verdict. The child runs requests on an 8 MB main-thread stack, the server's tokio "
               "workers have 2 MB, so bounded recursion between the two is missed. DeleteNodes never names the probe "
               "node or its parents. Sessions are fresh per sequence because ticks move the session's clock ahead.",
    shards={"quick": 8, "thorough": 16},
    timeout={"quick": 900, "thorough": 3600},
)
