"""Per-property configuration of the driver: sharding, watchdogs, evidence wording.
MANIFEST.json is generated from this table by tools/gen_manifest.py."""

import os
import sys

sys.path.insert(0, os.path.join(os.path.dirname(os.path.abspath(__file__)), "oracles"))

NCPU = 16

PROPS = {}


def prop(pid, **kw):
    kw.setdefault("level", "exploration")
    kw.setdefault("shards", {"quick": 4, "thorough": NCPU})
    kw.setdefault("timeout", {"quick": 600, "thorough": 3600})
    kw.setdefault("assumptions", [])
    PROPS[pid] = kw



def _load_all():
    import importlib
    d = os.path.join(os.path.dirname(os.path.abspath(__file__)), "propdefs")
    sys.path.insert(0, d)
    for f in sorted(os.listdir(d)):
        if f.endswith(".py") and not f.startswith("_"):
            importlib.import_module(f[:-3])


_load_all()
