#!/usr/bin/env python3
"""Appends 'fixed' entries to known_findings.json (hand-driven; never called by a check).
usage: add_fixed.py  <<EOF lines: property | commit-subject-substring | signature | what failed"""
import json, subprocess, sys
p = '/verif/known_findings.json'
k = json.load(open(p))
log = subprocess.run(['git', '-C', '/repo', 'log', '--format=%h %s'], capture_output=True, text=True).stdout.splitlines()
have = {(f['property'], f['signature']) for f in k['findings']}
for line in sys.stdin:
    line = line.strip()
    if not line or line.startswith('#'):
        continue
    prop, subj, sig, what = [x.strip() for x in line.split('|||')]
    c = [l.split()[0] for l in log if subj in l and ' fix:' in ' ' + l]
    assert len(c) == 1, (subj, c)
    if (prop, sig) in have:
        continue
    k['findings'].append({'property': prop, 'status': 'fixed', 'commit': c[0], 'signature': sig,
                          'description': 'fixed: property=%s %s %s' % (prop, c[0], what)})
json.dump(k, open(p, 'w'), indent=1)
print(len(k['findings']), 'entries')
