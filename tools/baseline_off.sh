#!/bin/bash
# Runs the repository's own suite with the verification cfg OFF and compares against
# /root/.vp/BASELINE.json (every stable_pass test must pass).
set -u
cd /repo || exit 2
unset RUSTFLAGS
export CARGO_NET_OFFLINE=true
if [ -f /w/lib/nextest.toml ] && cargo nextest --version >/dev/null 2>&1; then
  cargo nextest run --workspace --no-fail-fast --tool-config-file pb:/w/lib/nextest.toml \
    --profile pb --test-threads 8 --offline >/tmp/verif_baseline_off.log 2>&1
  python3 - <<'PY'
import json, sys, xml.etree.ElementTree as ET
base = json.load(open('/root/.vp/BASELINE.json'))
root = ET.parse('/repo/target/nextest/pb/junit.xml').getroot()
passed, failed = set(), set()
for tc in root.iter('testcase'):
    tid = (tc.get('classname') or '') + '::' + (tc.get('name') or '')
    if tc.find('failure') is not None or tc.find('error') is not None or tc.find('flakyFailure') is not None or tc.find('rerunFailure') is not None:
        failed.add(tid)
    elif tc.find('skipped') is None:
        passed.add(tid)
passed -= failed
missing = [t for t in base['stable_pass'] if t not in passed]
print(f"baseline_off: {len(passed)} passed, {len(failed)} failed, stable_pass={len(base['stable_pass'])}, stable_pass not passing={len(missing)}")
for t in missing:
    print("  NOT PASSING:", t)
sys.exit(1 if missing else 0)
PY
else
  cargo test --workspace --no-fail-fast --offline >/tmp/verif_baseline_off.log 2>&1
  grep -E "^test result" /tmp/verif_baseline_off.log
fi
