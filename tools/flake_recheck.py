#!/usr/bin/env python3
"""For a seeded change whose only not-passing baseline tests were timing-sensitive ones: re-runs exactly those tests
alone on a scratch worktree with the patch applied and updates seeded/<id>/verify.json."""
import json, os, subprocess, sys
def sh(cmd, cwd=None):
    p = subprocess.run(cmd, shell=True, cwd=cwd, stdout=subprocess.PIPE, stderr=subprocess.STDOUT, text=True, timeout=7200,
                       env={k: v for k, v in dict(os.environ, CARGO_NET_OFFLINE="true").items() if k != "RUSTFLAGS"})
    return p.returncode, p.stdout
sid = sys.argv[1]
d = "/verif/seeded/" + sid
v = json.load(open(d + "/verify.json"))
tail = v["steps"].get("suite_tail", "")
missing = [l.split("NOT PASSING:")[1].strip() for l in tail.splitlines() if "NOT PASSING:" in l]
assert missing and len(missing) <= 3, missing
wt = "/tmp/wt_f_" + sid.replace("-", "_")
sh("git -C /repo worktree remove --force %s; rm -rf %s" % (wt, wt))
rc, out = sh("/verif/tools/mkwt.sh f_%s" % sid.replace("-", "_")); assert rc == 0, out
try:
    rc, out = sh("git apply --whitespace=nowarn %s/patch.diff" % d, cwd=wt); assert rc == 0, out
    ok = True
    for t in missing:
        good = False
        for _ in range(2):
            rc, out = sh("cargo nextest run --workspace --offline %s" % t.split("::")[-1], cwd=wt)
            if rc == 0 and "1 passed" in out:
                good = True; break
        ok = ok and good
    v["steps"]["suite_rerun_of_not_passing"] = {"tests": missing, "all_pass_alone": ok}
    if ok:
        v["steps"]["suite_passes_with_patch"] = True
    json.dump(v, open(d + "/verify.json", "w"), indent=1)
    print(sid, missing, ok)
finally:
    sh("git -C /repo worktree remove --force %s; rm -rf %s" % (wt, wt))
