#!/usr/bin/env python3
"""Generates /verif/MANIFEST.json from props.py and properties.jsonl."""
import json, os, subprocess, sys
ROOT = os.path.dirname(os.path.dirname(os.path.abspath(__file__)))
sys.path.insert(0, ROOT)
from props import PROPS  # noqa

all_ids = [json.loads(l)["id"] for l in open(os.path.join(ROOT, "properties.jsonl"))]
NOT_APPLICABLE = {}
na_path = os.path.join(ROOT, "not_applicable.json")
if os.path.exists(na_path):
    NOT_APPLICABLE = json.load(open(na_path))

hook_commits = subprocess.run(["git", "-C", "/repo", "log", "--format=%h %s"], capture_output=True, text=True).stdout.splitlines()
hook_commits = [l.split()[0] for l in hook_commits if " verif hook:" in " " + l]

checks = []
for pid in all_ids:
    if pid not in PROPS:
        continue
    c = PROPS[pid]
    checks.append({
        "property_id": pid,
        "quick_cmd": "./check %s --tier quick" % pid,
        "thorough_cmd": "./check %s --tier thorough" % pid,
        "evidence_file": "/verif/evidence/%s.json" % pid,
        "replay_cmd_template": "./check %s --replay {path}" % pid,
        "engine": "vh",
        "level_claimed": {
            "category": c.get("level", "exploration"),
            "text": c["level_text"],
            "design_ref": "DESIGN.md section " + c.get("design_ref", "4"),
        },
        "level_note": c["level_note"],
        "technique": c["technique"],
    })

na = []
for pid in all_ids:
    if pid in PROPS:
        continue
    na.append({"property_id": pid, "reason": NOT_APPLICABLE.get(pid, "no check is registered for this property in this revision of /verif")})

m = {
    "version": 1,
    "setup_cmd": "./tools/setup.sh",
    "hooks": {
        "guard": "cfg(locka99_opcua_verif)",
        "enable": "RUSTFLAGS=\"--cfg locka99_opcua_verif\" (set in /verif/harness/.cargo/config.toml; the harness depends on /repo/lib by path, so every check rebuilds the working tree with hooks on)",
        "baseline_off_cmd": "./tools/baseline_off.sh",
        "source_commits": list(reversed(hook_commits)),
        "add_only": True,
    },
    "engines": [{
        "name": "vh",
        "path": "/verif/harness",
        "serves_properties": [c["property_id"] for c in checks],
        "kind_free_text": "Rust harness binary linked against /repo/lib (cfg locka99_opcua_verif): seeded workloads, in-process reference-model oracles, panic/signal capture in child processes; python driver ./check with offline oracles in /verif/oracles",
    }],
    "checks": checks,
    "notes": "All checks are runtime monitors: exit 0 = held on what was explored, 1 = VIOLATION line, 2 = inconclusive (no verdict). Known findings: /verif/known_findings.json.",
    "not_applicable": na,
}
json.dump(m, open(os.path.join(ROOT, "MANIFEST.json"), "w"), indent=1)
print("checks:", len(checks), "not claimed:", len(na))
