#!/bin/bash
# Copies a workload group developed in /tmp/vw_<group> into /verif and registers it. Idempotent.
set -e
g=$1
ws=/tmp/vw_$g
test -d $ws/harness/crates/$g
rsync -a --delete $ws/harness/crates/$g/ /verif/harness/crates/$g/
cp $ws/propdefs/$g.py /verif/propdefs/$g.py
if ls $ws/oracles/*.py >/dev/null 2>&1; then cp $ws/oracles/*.py /verif/oracles/; fi
grep -q "vh_$g = " /verif/harness/Cargo.toml || sed -i "s#^vh_misc = .*#&\nvh_$g = { path = \"crates/$g\" }#" /verif/harness/Cargo.toml
python3 - "$g" <<'PY'
import re, sys
g = sys.argv[1]
p = '/verif/harness/src/main.rs'
s = open(p).read()
if 'vh_%s::dispatch' % g not in s:
    s = re.sub(r"(\|\| vh_\w+::dispatch\(&args, &mut rep\));", r"\1\n        || vh_%s::dispatch(&args, &mut rep);" % g, s, count=1)
import os
src = ''.join(open(os.path.join(d, f)).read() for d, _, fs in os.walk('/verif/harness/crates/%s/src' % g) for f in fs if f.endswith('.rs'))
if 'pub fn child' in src and 'vh_%s::child' % g not in s:
    s = s.replace(".or_else(|| vh_codec::child(&name, &rest))", ".or_else(|| vh_codec::child(&name, &rest))\n            .or_else(|| vh_%s::child(&name, &rest))" % g, 1)
open(p, 'w').write(s)
PY
mkdir -p /verif/work/fixes/$g; cp $ws/work/fixes/*.diff /verif/work/fixes/$g/ 2>/dev/null || true
grep -n "vh_" /verif/harness/src/main.rs | head -30
