#!/usr/bin/env python3
"""Writes TASK.md into a scratch worktree for an independent 'break this property' agent.
usage: mk_mutation_task.py <property id> <worktree dir> [n_changes]"""
import json, sys
pid, wt = sys.argv[1], sys.argv[2]
n = int(sys.argv[3]) if len(sys.argv) > 3 else 2
prop = None
for l in open('/verif/properties.jsonl'):
    p = json.loads(l)
    if p['id'] == pid:
        prop = p
assert prop
text = f"""# Task: seed realistic defects that break one semantic property

You are working in `{wt}`, a scratch git worktree (detached HEAD) of the Rust project locka99/opcua
(an OPC UA client and server stack; the library crate is in `lib/`). Work ONLY inside this directory. Do not read or
write `/repo` or `/verif`. There is no network; nothing can be fetched.

## The property

id: {prop['id']}
title: {prop['title']}

statement: {prop['statement']}

quantified over: {prop['quantifier']['text']}

why the existing tests cannot settle it: {prop['why_tests_cant']}

anchored in: {', '.join(prop['anchors']['files'])}
mechanisms: {json.dumps(prop['anchors'].get('mechanism', []))}

## What to produce

{n} DIFFERENT, independent changes to the library source (each applied on its own to a clean tree), each of which

1. breaks the property above for some inputs / schedules / histories,
2. still compiles (also with `RUSTFLAGS="--cfg locka99_opcua_verif"`: leave every item guarded by
   `cfg(locka99_opcua_verif)` and the file `lib/src/verif.rs` / `*verif_hooks.rs` untouched),
3. still passes the existing test suite: `./RUN_TESTS.sh {wt}` must end with `stable_pass not passing=0`
   (it builds the whole workspace and runs all tests; the machine is shared and busy, so one run can take 10-25 minutes -
   run it once per change, at the end, in the foreground with a long timeout, never two at a time),
4. looks like something a developer could plausibly write (a refactoring slip, an off-by-one, a dropped or weakened
   check, a wrong branch for a rare case, state updated in the wrong order, a boundary handled one way in the encoder
   and another in the decoder, two sites that each look fine alone but disagree) - not sabotage with a magic constant,
5. needs something SPECIFIC to manifest: a particular interleaving, a fault at a particular point, a multi-step
   sequence of operations, an unusual but valid input, a boundary value - NOT something ordinary use or the first
   obvious smoke test would expose at once. The {n} changes should be in different places / mechanisms.

For each change also write a DEMONSTRATION: a test (preferably a new integration test file `lib/tests/seeded_demo_<k>.rs`
using the public API, or, when private items are needed, a `#[cfg(test)]` module in a new file wired in with one `mod`
line) that FAILS with the change applied and PASSES on the clean tree. Check both directions yourself.
Run only your demo test while iterating (e.g. `cargo test -p opcua --test seeded_demo_1 --offline`), not the whole suite.

## Deliverables (files, all under `{wt}/out/`)

For change k = 1..{n}:
- `out/<k>/patch.diff`  : `git diff` of the breaking change ONLY (existing source files; no demo code in it);
  it must apply with `git apply` to a clean checkout of HEAD.
- `out/<k>/demo.diff`   : diff that adds the demonstration (new files: use `git add -N <file>` then `git diff -- <file>`,
  or `git diff --no-index /dev/null <file>`), applying cleanly to a clean checkout of HEAD independently of patch.diff.
- `out/<k>/meta.json`   : {{"property": "{prop['id']}", "title": "<one line>", "what_breaks": "<how the property is violated>",
  "needs_to_manifest": "<the specific input / sequence / interleaving / fault>", "files_changed": [...],
  "demo_cmd": "<exact cargo command that runs the demo>", "demo_fails_with_patch": true, "demo_passes_without_patch": true,
  "suite_result_with_patch": "<last line printed by RUN_TESTS.sh>"}}

Leave the worktree CLEAN of your changes at the end (`git checkout -- . && git clean -fd -e out -e target -e RUN_TESTS.sh -e TASK.md`),
so that only `out/` holds your work. Do not commit anything.

Your final message: for each change, a 5-10 line summary (what, where, what it needs to manifest, results of the demo in both
directions and of the suite).
"""
open(wt + '/TASK.md', 'w').write(text)
print("written", wt + '/TASK.md')
