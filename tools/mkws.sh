#!/bin/bash
# Prepares an isolated development copy of /verif (without build output) under /tmp/vw_<name>
set -e
n=$1
d=/tmp/vw_$n
rm -rf "$d"
mkdir -p "$d"
rsync -a --exclude work --exclude .git --exclude evidence /verif/ "$d"/
mkdir -p "$d/work" "$d/evidence"
echo "$d"
