#!/bin/bash
# Prepares an isolated development copy of /verif under /tmp/vw_<name>, with a warm copy of the
# dependency build output so that the first build there only recompiles the harness crate.
set -e
n=$1
d=/tmp/vw_$n
rm -rf "$d"
mkdir -p "$d"
rsync -a --exclude work --exclude .git --exclude evidence /verif/ "$d"/
mkdir -p "$d/work" "$d/evidence"
if [ -d /verif/work/target ]; then cp -a /verif/work/target "$d/work/target"; fi
if [ -d /verif/work/pki ]; then cp -a /verif/work/pki "$d/work/pki"; fi
echo "$d"
