#!/bin/bash
# Scratch git worktree of /repo at HEAD under /tmp/wt_<name>, with a warm copy of /repo's build output and a
# RUN_TESTS.sh that runs the repository's own suite there. Remove with: git -C /repo worktree remove --force /tmp/wt_<name>
set -e
n=$1
d=/tmp/wt_$n
git -C /repo worktree remove --force "$d" 2>/dev/null || true
rm -rf "$d"
git -C /repo worktree add --detach "$d" HEAD >/dev/null 2>&1
if [ -d /repo/target/debug ]; then mkdir -p "$d/target"; cp -a /repo/target/debug "$d/target/debug" 2>/dev/null || true; fi
cp /verif/tools/wt_test.sh "$d/RUN_TESTS.sh"
echo "$d"
