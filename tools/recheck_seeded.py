#!/usr/bin/env python3
"""Re-runs checks against an already confirmed seeded change (after the checks were strengthened).
  recheck_seeded.py <seeded id> --checks C16,C20 [--tier quick]
Scratch worktree of /repo HEAD with seeded/<id>/patch.diff applied, scratch copy of /verif pointed at it; results are
written to seeded/<id>/verify.json under "checks_after_strengthening". Scratch copies are removed."""
import json, os, subprocess, sys, time

def sh(cmd, cwd=None, timeout=4 * 3600, env=None):
    p = subprocess.run(cmd, shell=True, cwd=cwd, stdout=subprocess.PIPE, stderr=subprocess.STDOUT, text=True, timeout=timeout, env=env)
    return p.returncode, p.stdout

a = sys.argv[1:]
sid = a[0]
checks, tier = None, "quick"
for i, x in enumerate(a):
    if x == "--checks": checks = a[i + 1].split(",")
    if x == "--tier": tier = a[i + 1]
d = os.path.join("/verif/seeded", sid)
v = json.load(open(os.path.join(d, "verify.json")))
checks = checks or [v["property"]]
name = "r_" + sid.replace("-", "_")
wt, ws = "/tmp/wt_" + name, "/tmp/vw_" + name
env = dict(os.environ); env.pop("RUSTFLAGS", None); env["CARGO_NET_OFFLINE"] = "true"
sh("git -C /repo worktree remove --force %s; rm -rf %s %s" % (wt, wt, ws))
rc, out = sh("git -C /repo worktree add --detach %s HEAD" % wt)
assert rc == 0, out
try:
    rc, out = sh("git apply --whitespace=nowarn %s" % os.path.join(d, "patch.diff"), cwd=wt)
    assert rc == 0, out
    sh("/verif/tools/mkws.sh %s" % name)
    sh("sed -i 's#path = \"/repo/lib\"#path = \"%s/lib\"#' %s/harness/Cargo.toml" % (wt, ws))
    sh("sed -i 's#/repo/lib/src/types/service_types#%s/lib/src/types/service_types#' %s/harness/crates/codec/build.rs" % (wt, ws))
    res = v.setdefault("checks_after_strengthening", {})
    for c in checks:
        t0 = time.time()
        rc, out = sh("./check %s --tier %s" % (c, tier), cwd=ws, env=env)
        lines = out.splitlines()
        res[c] = {"tier": tier, "exit": rc, "wall_s": round(time.time() - t0, 1), "at": time.strftime("%Y-%m-%dT%H:%M:%S"),
                  "verif_commit": subprocess.run(["git", "-C", "/verif", "rev-parse", "--short", "HEAD"], capture_output=True, text=True).stdout.strip(),
                  "signatures": [l.strip().replace(wt + "/", "") for l in lines if l.strip().startswith("signature:")][:5], "tail": lines[-3:]}
        print(sid, c, rc, res[c]["signatures"][:2])
    v["detected_after_strengthening"] = sorted(set(c for c, r in res.items() if r["exit"] == 1))
    json.dump(v, open(os.path.join(d, "verify.json"), "w"), indent=1)
finally:
    sh("git -C /repo worktree remove --force %s; rm -rf %s %s" % (wt, wt, ws))
