#!/bin/bash
# Verifies every seeded change in work/seeded_in that has no seeded/<id>/verify.json yet and is not being
# verified right now, N at a time.
cd /verif
N=${1:-3}
ls work/seeded_in | grep -v '\.log$' | while read s; do
  [ -f seeded/$s/verify.json ] && continue
  ps aux | grep -q "[v]erify_seeded.py work/seeded_in/$s " && continue
  echo $s
done | xargs -P $N -I{} sh -c 'python3 tools/verify_seeded.py work/seeded_in/{} {} > work/seeded_in/{}.log 2>&1'
