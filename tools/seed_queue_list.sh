#!/bin/bash
# usage: seed_queue_list.sh N id1 id2 ...   (verifies the listed seeds in this order, N at a time, skipping done/running ones)
cd /verif
N=$1; shift
for s in "$@"; do
  [ -f seeded/$s/verify.json ] && continue
  ps aux | grep -q "[v]erify_seeded.py work/seeded_in/$s " && continue
  echo $s
done | xargs -P $N -I{} sh -c 'python3 tools/verify_seeded.py work/seeded_in/{} {} > work/seeded_in/{}.log 2>&1'
