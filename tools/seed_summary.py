#!/usr/bin/env python3
import json,os
for s in sorted(os.listdir('/verif/seeded')):
    p='/verif/seeded/%s/verify.json'%s
    if os.path.exists(p):
        v=json.load(open(p))
        st=v.get('steps',{})
        ok = all(st.get(k) for k in ['demo_passes_on_clean_tree','demo_fails_with_patch','suite_passes_with_patch'])
        print(s, 'DETECTED' if v.get('detected_by') else 'missed', 'confirmed' if ok else 'UNCONFIRMED %s'%{k:st.get(k) for k in ['demo_passes_on_clean_tree','demo_fails_with_patch','suite_passes_with_patch']}, v.get('error','')[:200], [ (c,r['exit'],r['signatures'][:1]) for c,r in list(v.get('checks',{}).items())+list(v.get('checks_thorough',{}).items())+[('after:'+c,r) for c,r in v.get('checks_after_strengthening',{}).items()]])
