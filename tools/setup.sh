#!/bin/bash
# Builds the harness offline against /repo's working tree. Run once after a fresh restore.
set -e
cd "$(dirname "$0")/../harness"
unset RUSTFLAGS CARGO_ENCODED_RUSTFLAGS CARGO_TARGET_DIR
export CARGO_NET_OFFLINE=true
mkdir -p ../work
cargo build --quiet 2>&1 | grep -E "^error" -A 10 || true
test -x ../work/target/debug/vh && echo "setup: harness built"
