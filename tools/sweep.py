#!/usr/bin/env python3
"""Runs every registered check once (or the named ones) and prints one line per check.
usage: sweep.py [--tier quick|thorough] [--seed N] [ID ...]"""
import json, os, subprocess, sys, time
ROOT = os.path.dirname(os.path.dirname(os.path.abspath(__file__)))
a = sys.argv[1:]
tier, seed, ids = "quick", "1", []
i = 0
while i < len(a):
    if a[i] == "--tier": tier = a[i + 1]; i += 2
    elif a[i] == "--seed": seed = a[i + 1]; i += 2
    else: ids.append(a[i]); i += 1
m = json.load(open(os.path.join(ROOT, "MANIFEST.json")))
bad = 0
for c in m["checks"]:
    pid = c["property_id"]
    if ids and pid not in ids:
        continue
    env = dict(os.environ, VERIF_SEED=seed)
    t0 = time.time()
    p = subprocess.run(["./check", pid, "--tier", tier], cwd=ROOT, env=env, stdout=subprocess.PIPE, stderr=subprocess.STDOUT, text=True)
    lines = p.stdout.splitlines()
    summ = [l for l in lines if l.startswith(pid + " tier=")]
    kn = len([l for l in lines if l.startswith("KNOWN-FINDING")])
    print("%s exit=%d known=%d %.0fs %s" % (pid, p.returncode, kn, time.time() - t0, summ[-1] if summ else (lines[-1] if lines else "")), flush=True)
    if p.returncode != 0:
        bad += 1
        for l in lines:
            if l.startswith(("VIOLATION", "INCONCLUSIVE", "  signature")):
                print("    " + l[:300], flush=True)
print("checks with non-zero exit:", bad)
sys.exit(1 if bad else 0)
