#!/usr/bin/env python3
"""Regression test of the C38 union oracle (propdefs/locks.py::judge) on a synthetic order graph shaped like
finding F1. The signatures must not depend on how often an edge was seen (the request mix of a run), a new
place taking two classes in the wrong order must be a new signature, and one more place taking them in the
right order must not be.  usage: tools/test_locks_oracle.py   (exit 0 = ok)"""
import os
import sys

ROOT = os.path.dirname(os.path.dirname(os.path.abspath(__file__)))
sys.path.insert(0, ROOT)
from propdefs.locks import judge  # noqa: E402

SM, SS, S, AS = "server::SessionManager", "server::ServerState", "server::Session", "server::AddressSpace"
MH, METHOD = "server/services/message_handler.rs", "server/services/method.rs"


def edge(count, pairs, kinds=((2, 2),)):
    f, t = pairs[0]
    return dict(count=count, from_site=f, to_site=t, kinds=set(kinds), same_instance=0, other_instance=0, pairs=set(pairs))


def graph(n_create_session, n_method, extra=None):
    e = {
        (SM, SS): edge(n_create_session, [(MH + ":124", "server/session.rs:248")]),
        (SM, S): edge(9000, [("server/comms/tcp_transport.rs:458", "server/comms/tcp_transport.rs:461")]),
        (SM, AS): edge(4000, [("server/comms/tcp_transport.rs:458", "server/comms/tcp_transport.rs:462")]),
        (SS, S): edge(5000, [(MH + ":99", "server/services/attribute.rs:40")]),
        (SS, AS): edge(5000, [(MH + ":99", "server/services/attribute.rs:41")]),
        (S, AS): edge(5000, [("server/services/attribute.rs:40", "server/services/attribute.rs:41")]),
        (SS, SM): edge(n_method, [(METHOD + ":38", "server/address_space/method_impls.rs:95")], kinds=((1, 1),)),
        (AS, SM): edge(n_method, [(METHOD + ":40", "server/address_space/method_impls.rs:95")], kinds=((2, 1),)),
        (AS, S): edge(n_method, [(METHOD + ":40", "server/address_space/method_impls.rs:97")]),
    }
    for k, v in (extra or {}).items():
        if k in e:
            e[k]["pairs"] |= v["pairs"]
            e[k]["count"] += v["count"]
        else:
            e[k] = v
    return e


def sigs(g):
    return sorted(s for s, _, v in judge(g) if v)


F1 = sorted([
    "cycle|%s>%s>%s" % (AS, S, AS), "cycle|%s>%s>%s" % (AS, SM, AS), "cycle|%s>%s>%s" % (SS, SM, SS),
    "order|%s>%s" % (AS, S),
    "inversion|%s>%s|held@%s" % (AS, S, METHOD), "inversion|%s>%s|held@%s" % (AS, SM, METHOD),
    "inversion|%s>%s|held@%s" % (SS, SM, METHOD),
])
fail = 0
for cs, m in ((400, 1), (400, 67), (100, 67), (67, 67), (1, 67), (1, 5000)):
    got = sigs(graph(cs, m))
    if got != F1:
        fail += 1
        print("FAIL counts (%d,%d): %r" % (cs, m, [s for s in got if s not in F1] + ["missing " + s for s in F1 if s not in got]))
# a second place with the wrong order is new
g = graph(400, 67, {(SS, SM): edge(1, [("server/services/view.rs:50", "server/session.rs:107")], kinds=((1, 1),))})
want = "inversion|%s>%s|held@server/services/view.rs" % (SS, SM)
if want not in sigs(g):
    fail += 1
    print("FAIL: new wrong-order site not reported")
# a second place with the right order is not
g = graph(400, 67, {(SM, SS): edge(1, [("server/services/session.rs:343", "server/state.rs:100")])})
if sigs(g) != F1:
    fail += 1
    print("FAIL: new right-order site reported: %r" % [s for s in sigs(g) if s not in F1])
# a cycle through a class the reference order does not cover names both edges
D = "server::SessionDiagnostics"
g = graph(400, 67, {(AS, D): edge(3, [("server/session.rs:78", "server/session.rs:79")]),
                    (D, AS): edge(900, [("server/session.rs:553", "server/session.rs:554")])})
for w in ("cycle|%s>%s>%s" % (AS, D, AS), "inversion|%s>%s|held@server/session.rs" % (AS, D),
          "inversion|%s>%s|held@server/session.rs" % (D, AS)):
    if w not in sigs(g):
        fail += 1
        print("FAIL: missing " + w)
# without the method path there is nothing to report
g = graph(400, 0)
for k in ((SS, SM), (AS, SM), (AS, S)):
    del g[k]
if sigs(g):
    fail += 1
    print("FAIL: acyclic graph reported %r" % sigs(g))
print("locks oracle self-test: %s" % ("ok" if not fail else "%d failures" % fail))
sys.exit(1 if fail else 0)
