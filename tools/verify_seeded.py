#!/usr/bin/env python3
"""Confirms a seeded change independently and runs the checks against it.

  verify_seeded.py <dir with patch.diff demo.diff meta.json> <seeded id, e.g. C01-1> [--checks C01,C02] [--tier quick]
                   [--skip-suite] [--keep]

Steps, all in scratch copies outside /repo and /verif (so that nothing else running against /repo is disturbed):
  1. fresh worktree of /repo HEAD; apply demo.diff; the demonstration must PASS
  2. apply patch.diff; the demonstration must FAIL
  3. the repository's own suite must still pass with the patch (RUN_TESTS.sh)
  4. a scratch copy of /verif whose harness points at the patched worktree runs the named checks; records exit codes
Writes <verif>/seeded/<id>/{patch.diff,demo.diff,meta.json,verify.json}; removes the scratch copies."""
import json, os, shutil, subprocess, sys, time

def sh(cmd, cwd=None, timeout=7200, env=None):
    p = subprocess.run(cmd, shell=True, cwd=cwd, stdout=subprocess.PIPE, stderr=subprocess.STDOUT, text=True,
                       timeout=timeout, env=env)
    return p.returncode, p.stdout

def main():
    a = sys.argv[1:]
    src, sid = os.path.abspath(a[0]), a[1]
    checks = None
    tier = "quick"
    skip_suite = "--skip-suite" in a
    keep = "--keep" in a
    for i, x in enumerate(a):
        if x == "--checks":
            checks = a[i + 1].split(",")
        if x == "--tier":
            tier = a[i + 1]
    meta = json.load(open(os.path.join(src, "meta.json")))
    prop = meta["property"]
    checks = checks or [prop]
    name = "v_" + sid.replace("-", "_")
    wt = "/tmp/wt_" + name
    res = {"id": sid, "property": prop, "at": time.strftime("%Y-%m-%dT%H:%M:%S"), "steps": {}}
    env = dict(os.environ)
    env.pop("RUSTFLAGS", None)
    env["CARGO_NET_OFFLINE"] = "true"
    rc, out = sh("/verif/tools/mkwt.sh %s" % name)
    assert rc == 0, out
    try:
        rc, out = sh("git apply --whitespace=nowarn %s" % os.path.join(src, "demo.diff"), cwd=wt)
        res["steps"]["demo_applies"] = rc == 0
        if rc != 0:
            res["error"] = "demo.diff does not apply: " + out[-400:]
            return res
        demo_cmd = meta["demo_cmd"]
        rc, out = sh(demo_cmd, cwd=wt, env=env)
        res["steps"]["demo_passes_on_clean_tree"] = rc == 0
        res["steps"]["demo_clean_tail"] = out[-600:]
        rc, out = sh("git apply --whitespace=nowarn %s" % os.path.join(src, "patch.diff"), cwd=wt)
        res["steps"]["patch_applies"] = rc == 0
        if rc != 0:
            res["error"] = "patch.diff does not apply: " + out[-400:]
            return res
        rc, out = sh(demo_cmd, cwd=wt, env=env)
        res["steps"]["demo_fails_with_patch"] = rc != 0 and ("test result: FAILED" in out or "panicked" in out or "FAILED" in out)
        res["steps"]["demo_patched_tail"] = out[-800:]
        if not skip_suite:
            rc, out = sh("./RUN_TESTS.sh %s" % wt, cwd=wt, env=env)
            res["steps"]["suite_tail"] = out[-400:]
            if rc == 1:
                # timing-sensitive tests (socket timeouts) fail on a loaded machine: re-run just the ones that
                # did not pass, alone, up to twice; the suite counts as passing if each of them then passes
                missing = [l.split("NOT PASSING:")[1].strip() for l in out.splitlines() if "NOT PASSING:" in l]
                ok = bool(missing) and len(missing) <= 3
                for t in missing if ok else []:
                    tname = t.split("::")[-1]
                    good = False
                    for _ in range(2):
                        rc2, out2 = sh("cargo nextest run --workspace --offline %s" % tname, cwd=wt, env=env)
                        if rc2 == 0 and "1 passed" in out2:
                            good = True
                            break
                    ok = ok and good
                res["steps"]["suite_rerun_of_not_passing"] = {"tests": missing, "all_pass_alone": ok}
                if ok:
                    rc = 0
            res["steps"]["suite_passes_with_patch"] = rc == 0
        # checks against the patched tree, from a scratch copy of /verif
        rc, out = sh("/verif/tools/mkws.sh %s" % name)
        ws = "/tmp/vw_" + name
        sh("sed -i 's#path = \"/repo/lib\"#path = \"%s/lib\"#' %s/harness/Cargo.toml" % (wt, ws))
        sh("sed -i 's#/repo/lib/src/types/service_types#%s/lib/src/types/service_types#' %s/harness/crates/codec/build.rs" % (wt, ws))
        res["checks"] = {}
        for c in checks:
            t0 = time.time()
            rc, out = sh("./check %s --tier %s" % (c, tier), cwd=ws, env=env, timeout=4 * 3600)
            lines = out.splitlines()
            res["checks"][c] = {"tier": tier, "exit": rc, "wall_s": round(time.time() - t0, 1),
                                "violation_lines": [l for l in lines if l.startswith("VIOLATION")][:5],
                                "signatures": [l.strip() for l in lines if l.strip().startswith("signature:")][:5],
                                "tail": lines[-6:]}
        res["detected_by"] = [c for c, r in res["checks"].items() if r["exit"] == 1]
        return res
    finally:
        dst = os.path.join("/verif/seeded", sid)
        os.makedirs(dst, exist_ok=True)
        for f in ("patch.diff", "demo.diff", "meta.json"):
            if os.path.exists(os.path.join(src, f)):
                shutil.copy(os.path.join(src, f), os.path.join(dst, f))
        json.dump(res, open(os.path.join(dst, "verify.json"), "w"), indent=1)
        if not keep:
            sh("git -C /repo worktree remove --force %s" % wt)
            sh("rm -rf %s /tmp/vw_%s" % (wt, name))
        print(json.dumps({k: v for k, v in res.items() if k != "steps"}, indent=1)[:3000])
        print({k: v for k, v in res.get("steps", {}).items() if not k.endswith("tail")})

if __name__ == "__main__":
    main()
