#!/bin/bash
# Runs the repository's own suite (hooks cfg OFF) in a checkout given as $1 (default /repo) and compares against
# /root/.vp/BASELINE.json: every stable_pass test must pass. Exit 0 = suite passes.
set -u
D=${1:-/repo}
cd "$D" || exit 2
unset RUSTFLAGS
export CARGO_NET_OFFLINE=true
LOG=$(mktemp /tmp/wt_test.XXXXXX.log)
cargo nextest run --workspace --no-fail-fast --tool-config-file pb:/w/lib/nextest.toml \
    --profile pb --test-threads 8 --offline >"$LOG" 2>&1
python3 - "$D" <<'PY'
import json, sys, xml.etree.ElementTree as ET
d = sys.argv[1]
base = json.load(open('/root/.vp/BASELINE.json'))
try:
    root = ET.parse(d + '/target/nextest/pb/junit.xml').getroot()
except Exception as e:
    print("no junit report (build failure?):", e); sys.exit(2)
passed, failed = set(), set()
for tc in root.iter('testcase'):
    tid = (tc.get('classname') or '') + '::' + (tc.get('name') or '')
    if tc.find('failure') is not None or tc.find('error') is not None or tc.find('flakyFailure') is not None or tc.find('rerunFailure') is not None:
        failed.add(tid)
    elif tc.find('skipped') is None:
        passed.add(tid)
passed -= failed
stable = base['stable_pass'] if isinstance(base['stable_pass'], list) else None
if stable is None:
    print(f"suite: {len(passed)} passed, {len(failed)} failed (no stable list in baseline)")
    sys.exit(1 if failed else 0)
missing = [t for t in stable if t not in passed]
print(f"suite: {len(passed)} passed, {len(failed)} failed, stable_pass={len(stable)}, stable_pass not passing={len(missing)}")
for t in missing:
    print("  NOT PASSING:", t)
sys.exit(1 if missing else 0)
PY
rc=$?
if [ $rc -eq 2 ]; then tail -30 "$LOG"; fi
rm -f "$LOG"
exit $rc
